#!/usr/bin/env python3
"""Vacuity guard for the Layer B models: each textual mutation of a specification module re-introduces a defect that was
really present in toodee (or a plausible slip); TLC must then report a violated invariant.  Not registered in MANIFEST.json.
usage: selftest/spec_mutations.py        (prints one line per mutation, exit 1 if any mutation survives)"""
import os, shutil, subprocess, sys, tempfile
V = os.path.dirname(os.path.dirname(os.path.abspath(__file__)))
SPEC = os.path.join(V, "spec")
CP = "/opt/veriftools/tla/tla2tools.jar:/opt/veriftools/tla/CommunityModules-deps.jar"

MUTATIONS = {
 "CursorsMC": {
  "target": "Cursors",
  "cfg": "SPECIFICATION Spec\nCONSTANTS\n  W = 5\n  MaxC = 3\n  MaxR = 3\n  MaxSkip = 2\n  CKinds = {\"rows\", \"rows_mut\", \"col\", \"col_mut\", \"cells\", \"cells_mut\"}\n  EmitMaxN = 0\n  Emit = FALSE\nVIEW View\nINVARIANTS B_SameResult B_SameRemaining B_SameLen B_Rep B_InBounds\nCHECK_DEADLOCK FALSE\n",
  "muts": [
   ("D1: RowsMut::nth_back computes the new end from the emptied slice",
    "ELSE RowsNextBack([s EXCEPT !.v = [off |-> s.v.off, len |-> s.v.len - m.v]])",
    "ELSE RowsNextBack([s EXCEPT !.v = [off |-> s.v.off, len |-> 0]])"),
   ("D2: Col indexing multiplies without an overflow check",
    "IF m.ovf \\/ m.v >= s.v.len THEN CR(s, PanicR, TRUE) ELSE CR(s, SomeR(s.v.off + m.v), TRUE)",
    "IF m.v >= s.v.len THEN CR(s, PanicR, TRUE) ELSE CR(s, SomeR(s.v.off + m.v), TRUE)"),
   ("Rows::nth ignores the overflow flag of overflowing_mul",
    "IF m.v >= s.v.len \\/ m.ovf THEN RowsNext([s EXCEPT !.v = Empty])",
    "IF m.v >= s.v.len THEN RowsNext([s EXCEPT !.v = Empty])"),
   ("S02: FlattenExact::nth reduces n modulo the width",
    "ELSE LET n2 == n1 - skipn * s1.nc  s2 == [s1 EXCEPT !.rlo = s1.rhi] IN",
    "ELSE LET n2 == n1 % s1.nc  s2 == [s1 EXCEPT !.rlo = s1.rhi] IN"),
   ("FlattenExact::size_hint forgets the back row",
    "FlatLen(s) == s.nc * (s.rhi - s.rlo) + ILen(s.f) + ILen(s.bk)",
    "FlatLen(s) == s.nc * (s.rhi - s.rlo) + ILen(s.f)"),
   ("Col::next_back does not skip the stride gap",
    "ELSE CR([s EXCEPT !.v = [off |-> s.v.off, len |-> fstlen - s.skip]], SomeR(s.v.off + fstlen), s.skip <= fstlen)\nColNth",
    "ELSE CR([s EXCEPT !.v = [off |-> s.v.off, len |-> fstlen]], SomeR(s.v.off + fstlen), s.skip <= fstlen)\nColNth"),
   ("Rows size_hint divides by the width only",
    "ELSE LET d == s.cols + s.skip IN (s.v.len \\div d) + ((s.v.len % d) \\div s.cols)",
    "ELSE s.v.len \\div s.cols"),
  ]},
 "AddrMC": {
  "target": "Addr",
  "cfg": "SPECIFICATION Spec\nCONSTANTS\n  W = 6\n  OC = FALSE\n  MaxDim = 4\n  MaxSkip = 2\nINVARIANTS Refines\nCHECK_DEADLOCK FALSE\n",
  "muts": [
   ("D5: the data range of an empty window starts at its nominal (possibly out-of-range) position",
    "IN IF h = 0 THEN [k |-> \"ok\", v |-> 0, n |-> 0, inb |-> TRUE, nc |-> 0, nr |-> 0]",
    "IN IF h = 0 THEN [k |-> \"ok\", v |-> ds.v, n |-> 0, inb |-> ds.v <= len, nc |-> 0, nr |-> 0]"),
   ("D2: col(c)[i] multiplies without checked_mul (wraps when overflow checks are off)",
    "IF i * (1 + skip) >= Word THEN PanicA                                          \\* checked_mul -> None -> expect() panics\n    ELSE IF i * (1 + skip) >= collen THEN PanicA ELSE Ok(i * (1 + skip), 1, TRUE)",
    "IF (i * (1 + skip)) % Word >= collen THEN PanicA ELSE Ok((i * (1 + skip)) % Word, 1, TRUE)"),
   ("S07: the coordinate indexer checks the column against the stride",
    "IF ~(r < nr) \\/ ~(c < nc) THEN PanicA\n    ELSE LET m == Mul(r, stride)  s == Add(m.v, c) IN",
    "IF ~(r < nr) \\/ ~(c < stride) THEN PanicA\n    ELSE LET m == Mul(r, stride)  s == Add(m.v, c) IN"),
   ("the row indexer forgets its bounds assertion",
    "IndexRowB(nc, nr, stride, len, r) ==\n    IF ~(r < nr) THEN PanicA",
    "IndexRowB(nc, nr, stride, len, r) ==\n    IF FALSE THEN PanicA"),
  ]},
 "AlgosMC": {
  "target": "Algos",
  "cfg": "SPECIFICATION Spec\nCONSTANTS\n  TMax = 6\n  PMax = 5\n  CMax = 4\n  Which = {\"translate\", \"swaptrace\", \"copywithin\"}\nINVARIANTS TranslateRefines SwapTraceRefines CopyWithinRefines\nCHECK_DEADLOCK FALSE\n",
  "muts": [
   ("S15: translate keeps the running column offset across row cycles",
    "InnerLoop([s EXCEPT !.mid = s.colmid, !.next = s.base + s.adj], NR(s.g) + 2)",
    "InnerLoop([s EXCEPT !.next = s.base + s.adj], NR(s.g) + 2)"),
   ("translate swaps the two halves without rotating",
    "b2 == [x \\in 1..C |-> IF x <= mid THEN n[C - mid + x] ELSE n[x - mid]]",
    "b2 == [x \\in 1..C |-> n[x]]"),
   ("build_swap_trace drops the inverse-index fix-up",
    "o15 == IF invi > i /\\ ~oob THEN [o1 EXCEPT ![invi + 1] = <<other, o1[invi + 1][2]>>] ELSE o1",
    "o15 == o1"),
   ("S03-like: copy_within walks the rows top-down when moving down",
    "IN IF tl[2] < d[2] THEN CopyRows(g, desc, 1, d[2] - tl[2], tl[1], br[1], d[1])",
    "IN IF tl[2] < d[2] THEN CopyRows(g, asc, 1, d[2] - tl[2], tl[1], br[1], d[1])"),
  ]},
 "RawMem": {
  "cfg": "SPECIFICATION Spec\nCONSTANTS\n  MaxC = 3\n  MaxR = 3\n  Slacks = {0, 2}\n  DebugBuilds = {TRUE, FALSE}\nINVARIANTS M_InBounds M_NoDoubleDrop M_Shape M_Owned M_Provenance M_Refines M_RejectUnchanged M_DrainLine M_DrainRow M_ExactlyOnce\nCHECK_DEADLOCK FALSE\n",
  "muts": [
   ("D4: remove_col keeps the dimensions while the drain is outstanding",
    "/\\ vlen' = 0 /\\ nc' = 0 /\\ nr' = 0                             \\* set_len(0) and zeroed dimensions while the drain lives",
    "/\\ vlen' = 0 /\\ UNCHANGED <<nc, nr>>"),
   ("D3: insert_row leaves num_rows untouched while the Vec is truncated",
    "/\\ nr' = loc.index /\\ nc' = (IF loc.index = 0 THEN 0 ELSE nc)          \\* dimensions follow the truncated Vec",
    "/\\ UNCHANGED <<nc, nr>>"),
   ("D3: insert_col leaves the dimensions untouched while the Vec is empty",
    "/\\ vlen' = 0 /\\ nc' = 0 /\\ nr' = 0                                   \\* set_len(0); the dimensions say \"empty\" too",
    "/\\ vlen' = 0 /\\ UNCHANGED <<nc, nr>>"),
   ("insert_row forgets set_len(start): a panic leaves bitwise duplicates owned by the Vec",
    "/\\ vlen' = start                                                       \\* set_len(start)",
    "/\\ vlen' = vlen"),
   ("D4: remove_row drains the row in place (no rotation to the tail)",
    "/\\ mem' = RotL(mem, start, vlen, nc)                           \\* the row goes to the tail\n                    /\\ vlen' = newlen",
    "/\\ mem' = mem\n                    /\\ vlen' = start"),
   ("DrainCol::drop compacts one cell too many per row (the 0.6.0 heap overflow class)",
    "ELSE Compact(Copy(m, src, dst, newc), k + 1, src + onc, dst + newc)",
    "ELSE Compact(Copy(m, src, dst, newc + 1), k + 1, src + onc, dst + newc + 1)"),
   ("insert_col takes the supplied items front to back",
    "/\\ mem' = [mem EXCEPT ![loc.dst] = it[Len(it)]]\n                    /\\ it' = SubSeq(it, 1, Len(it) - 1)",
    "/\\ mem' = [mem EXCEPT ![loc.dst] = Head(it)]\n                    /\\ it' = Tail(it)"),
   ("DrainCol's guard drops the line starting with the element whose destructor just panicked (double drop)",
    "/\\ DropIds([k \\in 1..(dr.hi - dr.lo) |-> mem[DSlot(dr.lo + k - 1)]])",
    "/\\ DropIds([k \\in 1..(dr.hi - dr.lo + 1) |-> mem[DSlot(dr.lo + k - 2)]])"),
   ("insert_row reserves nothing (exact-capacity buffers overflow)",
    "/\\ cap' = Max2(cap, vlen + loc.n) /\\ pc' = \"ir_open\"",
    "/\\ cap' = cap /\\ pc' = \"ir_open\""),
  ]},
}

def run(module, target, text, cfg):
    d = tempfile.mkdtemp(prefix="specmut_")
    try:
        for f in os.listdir(SPEC):
            if f.endswith(".tla"):
                shutil.copy(os.path.join(SPEC, f), d)
        open(os.path.join(d, target + ".tla"), "w").write(text)
        open(os.path.join(d, "m.cfg"), "w").write(cfg)
        r = subprocess.run(["java", "-XX:+UseParallelGC", "-Xmx6g", "-cp", CP, "tlc2.TLC", "-workers", "8", "-metadir", os.path.join(d, "st"),
                            "-noGenerateSpecTE", "-config", "m.cfg", module + ".tla"], cwd=d, stdout=subprocess.PIPE, stderr=subprocess.STDOUT, text=True, timeout=900)
        out = r.stdout
        lines = out.splitlines()
        viol = [l for l in lines if "is violated" in l]
        for i, l in enumerate(lines):
            if "The first argument of Assert evaluated to FALSE" in l:
                viol.append("Assert failed: " + " ".join(lines[i + 1:i + 3])[:80])
        return r.returncode, viol, out
    finally:
        shutil.rmtree(d, ignore_errors=True)

def main():
    bad = 0
    for module, spec in MUTATIONS.items():
        target = spec.get("target", module)
        base = open(os.path.join(SPEC, target + ".tla")).read()
        rc, viol, out = run(module, target, base, spec["cfg"])
        print("%-8s unmutated: rc=%d %s" % (module, rc, "OK" if rc == 0 else "UNEXPECTED " + "; ".join(viol)))
        if rc != 0:
            bad += 1
        for name, old, new in spec["muts"]:
            if base.count(old) != 1:
                print("%-8s MUTATION DOES NOT APPLY: %s" % (module, name)); bad += 1; continue
            rc, viol, out = run(module, target, base.replace(old, new), spec["cfg"])
            killed = rc != 0 and viol
            print("%-8s %-90s -> %s" % (module, name[:90], ("killed: " + viol[0].strip()[:60]) if killed else "SURVIVED (rc=%d)" % rc))
            if not killed:
                bad += 1
    return 1 if bad else 0

if __name__ == "__main__":
    sys.exit(main())
