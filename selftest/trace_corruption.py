#!/usr/bin/env python3
"""Binding demonstration for the code->spec direction: a recorded event log of the real crate is accepted by the trace
specification as it is, and REJECTED AT EXACTLY THE TAMPERED LINE when one recorded field is corrupted or one event
(one hook firing) is removed.  A trace specification that constrained only the length of the log would pass the first
half and fail the second.  Not registered in MANIFEST.json.
usage: selftest/trace_corruption.py      (prints one line per corruption, exit 1 if any corruption is accepted)"""
import copy, json, os, random, shutil, subprocess, sys, tempfile
V = os.path.dirname(os.path.dirname(os.path.abspath(__file__)))
sys.path.insert(0, os.path.join(V, "vlib"))
import core, gen   # noqa: E402


def load(path):
    with open(path) as f:
        return [json.loads(l) for l in f]


def save(path, evs):
    with open(path, "w") as f:
        for e in evs:
            f.write(json.dumps(e) + "\n")


def validate(work, name, module, path):
    ok, rejected, _ = core.validate_trace(work, name, module, path, invariants=(), max_rounds=1)
    lines = [r["line"] for r in rejected if r.get("line")]
    return (lines[0] if lines else None)


# ---- corruptions of a history event (TooDeeTrace) ----
def c_swap_cells(e):
    d = e["post"]["data"]
    if not e["post"]["obs"] or len(set(d)) < 2:
        return None
    i = next(k for k in range(1, len(d)) if d[k] != d[0])
    d[0], d[i] = d[i], d[0]
    return "two cells of the observed array exchanged"


def c_extra_row(e):
    if not e["post"]["obs"]:
        return None
    e["post"]["nr"] += 1
    return "num_rows() one too many"


def c_result(e):
    r = e["res"]
    if r["k"] == "some":
        e["res"] = {"k": "none"}
        return "result Some(x) recorded as None"
    if r["k"] in ("val", "drain"):
        r["v"] += 1
        return "returned length one too many"
    if r["k"] == "unit":
        e["res"] = {"k": "panic"}
        return "a call that returned recorded as panicked"
    return None


def c_held(e):
    e["held"] = e["held"] + [424242]
    return "an element the caller never received appears in its hands"


def c_double_drop(e):
    e["dd"] = 1
    return "the ledger reports one double drop"


def c_leak(e):
    if not e.get("tracked") or not e["live"]:
        return None
    e["live"] = e["live"] + [e["live"][0]]
    return "one more live element than the model accounts for"


HIST_CORRUPTIONS = [c_swap_cells, c_extra_row, c_result, c_held, c_double_drop, c_leak]


def main():
    core.build_harness(("release",))
    work = tempfile.mkdtemp(prefix="tracecorr_", dir=os.path.join(V, "out"))
    bad = 0
    total = 0
    try:
        # ---------------- history machine ----------------
        logp = os.path.join(work, "hist.ndjson")
        subprocess.run([core.binpath("drive", "release"), "hist", "77", "40", "30", "4", logp, "elem"], check=True,
                       stdout=subprocess.DEVNULL)
        evs = load(logp)
        first = validate(work, "base", "TooDeeTrace", logp)
        print("%-62s %s" % ("untouched history log (%d events)" % len(evs), "accepted" if first is None else "REJECTED at %s" % first))
        if first is not None:
            bad += 1
        rnd = random.Random(5)
        cand = [i for i, e in enumerate(evs) if e.get("ev") not in ("reset", "end") and e.get("fault", {}).get("kind") == "none"]
        for fn in HIST_CORRUPTIONS:
            done = 0
            for _ in range(200):
                i = rnd.choice(cand)
                m = copy.deepcopy(evs)
                what = fn(m[i])
                if what is None:
                    continue
                p = os.path.join(work, "m.ndjson")
                save(p, m)
                at = validate(work, "m", "TooDeeTrace", p)
                total += 1
                verdict = "rejected at the tampered event" if at == i + 1 else ("ACCEPTED" if at is None else "rejected at line %s, tampered %d" % (at, i + 1))
                if at != i + 1:
                    bad += 1
                print("%-62s %s" % ("%s (%s, line %d)" % (what, evs[i]["ev"], i + 1), verdict))
                done += 1
                if done == 2:
                    break
        # a removed event = a hook that did not fire: the log must be rejected at or after the gap
        for _ in range(4):
            # (only events that changed the observable array: removing a no-op such as swap_rows(r, r) is invisible by nature)
            i = rnd.choice([k for k in cand if k > 0 and evs[k]["post"]["obs"] and evs[k - 1].get("post", {}).get("obs")
                            and (evs[k]["post"]["data"], evs[k]["post"]["nc"]) != (evs[k - 1]["post"]["data"], evs[k - 1]["post"]["nc"])])
            m = evs[:i] + evs[i + 1:]
            p = os.path.join(work, "m.ndjson")
            save(p, m)
            at = validate(work, "m", "TooDeeTrace", p)
            total += 1
            ok = at is not None and at >= i + 1
            if not ok:
                bad += 1
            print("%-62s %s" % ("event removed (%s, line %d)" % (evs[i]["ev"], i + 1), ("rejected at line %d" % at) if ok else "ACCEPTED"))
        # ---------------- receivers (AccessTrace) ----------------
        casep = os.path.join(work, "acc.cases.ndjson")
        gen.acc_cases(11, 300, 9, ["prim", "move", "copy", "write"], casep)
        logp = os.path.join(work, "acc.ndjson")
        core.replay(casep, profile="release", elem="u32", extra_args=("--log", logp))
        evs = load(logp)
        first = validate(work, "accbase", "AccessTrace", logp)
        print("%-62s %s" % ("untouched receiver log (%d events)" % len(evs), "accepted" if first is None else "REJECTED at %s" % first))
        if first is not None:
            bad += 1
        cand = [i for i, e in enumerate(evs) if len(set(e.get("root_after", []))) >= 2]
        for _ in range(4):
            i = rnd.choice(cand)
            m = copy.deepcopy(evs)
            d = m[i]["root_after"]
            j = next(k for k in range(1, len(d)) if d[k] != d[0])
            d[0], d[j] = d[j], d[0]
            p = os.path.join(work, "m.ndjson")
            save(p, m)
            at = validate(work, "m", "AccessTrace", p)
            total += 1
            if at != i + 1:
                bad += 1
            print("%-62s %s" % ("two cells of the root after %s exchanged (line %d)" % (evs[i]["op"], i + 1),
                                "rejected at the tampered event" if at == i + 1 else "NOT rejected there (%s)" % at))
    finally:
        shutil.rmtree(work, ignore_errors=True)
    print("%d corruptions, %d not rejected where they were made" % (total, bad))
    return 1 if bad else 0


if __name__ == "__main__":
    sys.exit(main())
