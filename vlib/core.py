"""Core machinery shared by all property pipelines: building the harness, running TLC,
extracting emitted cases, replaying them against the real crate, trace validation, failure
attribution, known findings, evidence."""
import fcntl, json, os, re, signal, subprocess, sys, tempfile, time, hashlib, random

VERIF = os.path.dirname(os.path.dirname(os.path.abspath(__file__)))
SPEC = os.path.join(VERIF, "spec")
HARNESS = os.path.join(VERIF, "harness")
OUT = os.path.join(VERIF, "out")
EVID = os.path.join(VERIF, "evidence")
TLA_CP = "/opt/veriftools/tla/tla2tools.jar:/opt/veriftools/tla/CommunityModules-deps.jar"


class ToolError(Exception):
    pass


HOOKS_BUILD_OK = True


def log(*a):
    print(*a, file=sys.stderr, flush=True)


# --------------------------------------------------------------------------------------
# build
# --------------------------------------------------------------------------------------
def build_harness(profiles=("dev", "release")):
    """Rebuild the harness (and therefore /repo's current working tree, a path dependency)."""
    os.makedirs(OUT, exist_ok=True)
    lock = open(os.path.join(HARNESS, ".buildlock"), "w")
    fcntl.flock(lock, fcntl.LOCK_EX)
    try:
        env = dict(os.environ, CARGO_NET_OFFLINE="true")
        for p in profiles:
            cmd = ["cargo", "build", "--offline", "--quiet", "--bins"]
            if p == "release":
                cmd.append("--release")
            t0 = time.time()
            r = subprocess.run(cmd, cwd=HARNESS, env=env, stdout=subprocess.PIPE, stderr=subprocess.STDOUT, text=True)
            if r.returncode != 0:
                # The harness builds /repo with --cfg toodee_verif (hooks on).  If the tree only fails to build WITH the
                # hooks (an edit that touched a name a hook line mentions), fall back to a build without them: no verdict
                # depends on the hooks except the repository-tests trace, which is then skipped.
                env2 = dict(env, RUSTFLAGS="")
                r2 = subprocess.run(cmd, cwd=HARNESS, env=env2, stdout=subprocess.PIPE, stderr=subprocess.STDOUT, text=True)
                if r2.returncode != 0:
                    raise ToolError("cargo build (%s) failed:\n%s" % (p, r.stdout[-4000:]))
                log("[build] %s profile built WITHOUT the verification cfg (the hooked build failed)" % p)
                global HOOKS_BUILD_OK
                HOOKS_BUILD_OK = False
            log("[build] %s profile ok in %.1fs" % (p, time.time() - t0))
    finally:
        fcntl.flock(lock, fcntl.LOCK_UN)
        lock.close()


def binpath(name, profile):
    return os.path.join(HARNESS, "target", "debug" if profile == "dev" else "release", name)


# --------------------------------------------------------------------------------------
# TLC
# --------------------------------------------------------------------------------------
class TlcResult:
    def __init__(self):
        self.generated = 0
        self.distinct = 0
        self.depth = 0
        self.cases = 0
        self.cases_path = None
        self.out_path = None
        self.violation = None  # text of an invariant violation in the specification itself
        self.coverage = {}
        self.wall = 0.0
        self.cmd = ""


def cfg_text(spec="Spec", constants=None, constraints=(), view=None, invariants=(), properties=(), postcondition=None,
             init=None, next_=None):
    lines = []
    if init and next_:
        lines += ["INIT %s" % init, "NEXT %s" % next_]
    else:
        lines.append("SPECIFICATION %s" % spec)
    if constants:
        lines.append("CONSTANTS")
        for k, v in constants.items():
            if isinstance(v, bool):
                v = "TRUE" if v else "FALSE"
            elif isinstance(v, (set, frozenset, list, tuple)):
                v = "{" + ", ".join(json.dumps(x) if isinstance(x, str) else str(x) for x in v) + "}"
            elif isinstance(v, str) and not v.startswith("@"):
                v = json.dumps(v)
            elif isinstance(v, str):
                v = v[1:]
            lines.append("  %s = %s" % (k, v))
    for c in constraints:
        lines.append("CONSTRAINT %s" % c)
    if view:
        lines.append("VIEW %s" % view)
    if invariants:
        lines.append("INVARIANTS " + " ".join(invariants))
    if properties:
        lines.append("PROPERTIES " + " ".join(properties))
    if postcondition:
        lines.append("POSTCONDITION %s" % postcondition)
    lines.append("CHECK_DEADLOCK FALSE")
    return "\n".join(lines) + "\n"


CASE_PREFIX = '<<"CASE", "'


def run_tlc(workdir, name, module, cfg, workers=1, simulate=None, seed=None, timeout=1800, env_extra=None, xmx="4g", jvm_extra=(),
            coverage=False, stack="64m", depth=None):
    """Run TLC on spec/<module>.tla with the given cfg text.  Emitted CASE lines are written to
    <workdir>/<name>.cases.ndjson.  Raises ToolError for anything but success or an invariant
    violation (which is returned in .violation)."""
    os.makedirs(workdir, exist_ok=True)
    cfgp = os.path.join(workdir, name + ".cfg")
    with open(cfgp, "w") as f:
        f.write(cfg)
    outp = os.path.join(workdir, name + ".tlc.out")
    meta = os.path.join(workdir, name + ".states")
    cmd = ["java", "-XX:+UseParallelGC", "-Xss" + stack, "-Xmx" + xmx] + list(jvm_extra) + ["-cp", TLA_CP, "tlc2.TLC", "-workers", str(workers),
           "-metadir", meta, "-cleanup", "-noGenerateSpecTE", "-config", cfgp]
    if coverage:
        cmd += ["-coverage", "1"]
    if simulate:
        cmd += ["-simulate", simulate]
        if seed is not None:
            cmd += ["-seed", str(seed)]
        if depth is not None:
            cmd += ["-depth", str(depth)]
    cmd.append(os.path.join(SPEC, module + ".tla"))
    env = dict(os.environ)
    if env_extra:
        env.update(env_extra)
    res = TlcResult()
    res.cmd = " ".join(cmd)
    res.out_path = outp
    t0 = time.time()
    with open(outp, "w") as fo:
        try:
            p = subprocess.run(cmd, cwd=SPEC, env=env, stdout=fo, stderr=subprocess.STDOUT, timeout=timeout)
            rc = p.returncode
        except subprocess.TimeoutExpired:
            raise ToolError("TLC timed out after %ss: %s" % (timeout, res.cmd))
    res.wall = time.time() - t0
    subprocess.run(["rm", "-rf", meta])
    casesp = os.path.join(workdir, name + ".cases.ndjson")
    ncases = 0
    tail = []
    with open(outp, errors="replace") as fi, open(casesp, "w") as fc:
        for line in fi:
            if line.startswith(CASE_PREFIX):
                body = line.rstrip("\n")[len(CASE_PREFIX):-3]
                body = body.replace('\\"', '"').replace("\\\\", "\\")
                fc.write(body + "\n")
                ncases += 1
                continue
            tail.append(line)
            if len(tail) > 400:
                tail = tail[-300:]
            m = re.match(r"(\d+) states generated, (\d+) distinct states found", line)
            if m:
                res.generated, res.distinct = int(m.group(1)), int(m.group(2))
            m = re.match(r"The number of states generated: (\d+)", line)
            if m:
                res.generated = int(m.group(1))
                res.distinct = max(res.distinct, ncases)
            m = re.match(r"The depth of the complete state graph search is (\d+)", line)
            if m:
                res.depth = int(m.group(1))
            m = re.match(r"<(\w+) line \d+, col \d+ to line \d+, col \d+ of module \w+>: (\d+):(\d+)", line)
            if m:
                res.coverage[m.group(1)] = res.coverage.get(m.group(1), 0) + int(m.group(3))
    res.cases = ncases
    res.cases_path = casesp
    text = "".join(tail)
    if rc == 0:
        return res
    if rc in (12, 13) or "is violated" in text or "The first argument of Assert evaluated to FALSE" in text:
        res.violation = text[-6000:]
        return res
    if "when writing the disk (StatePoolWriter.run)" in text and not jvm_extra and simulate is None:
        # a defect of TLC's disk-backed state queue (a lazily evaluated function value is written before it was converted):
        # it shows only when the queue outgrows its in-memory pool.  Retry once with the in-memory queue implementation.
        log("[tlc] %s: TLC's disk state queue failed internally; retrying with the in-memory queue" % name)
        return run_tlc(workdir, name, module, cfg, workers=workers, simulate=simulate, seed=seed, timeout=timeout, env_extra=env_extra,
                       xmx=xmx, jvm_extra=("-Dtlc2.tool.queue.IStateQueue=StateDeque",), coverage=coverage, stack=stack, depth=depth)
    raise ToolError("TLC failed (rc=%s) for %s: see %s\n%s" % (rc, name, outp, text[-3000:]))


# --------------------------------------------------------------------------------------
# replay (spec -> code)
# --------------------------------------------------------------------------------------
REPLAY_STATS = {}


def replay(cases_path, profile="dev", elem="elem", cap=0, extra_args=(), per_case_timeout=20, total_timeout=3600, max_failures=150):
    """Run the replay binary over a cases file.  Survives aborts/hangs of the code under test:
    the case that killed the process is recorded as a failure of kind 'abort' / 'hang'.
    Returns (n_cases_run, failures[list of dict])."""
    exe = binpath("replay", profile)
    failures = []
    start = 0
    ran = 0
    t_end = time.time() + total_timeout
    while True:
        cmd = [exe, cases_path, "--elem", elem, "--cap", str(cap), "--from", str(start)] + list(extra_args)
        errf = tempfile.TemporaryFile()
        p = subprocess.Popen(cmd, stdout=subprocess.PIPE, stderr=errf, text=True, env=dict(os.environ, RUST_BACKTRACE="0"))
        last = None
        armed = None      # case in which an allocation request is being refused on purpose ("A k" marker)
        done = False
        # watchdog: a case that runs longer than per_case_timeout is a hang
        import threading
        state = {"t": time.time(), "killed": False}
        stop = threading.Event()

        def watchdog():
            while p.poll() is None:
                if stop.wait(0.5):
                    return
                if time.time() - state["t"] > per_case_timeout or time.time() > t_end:
                    state["killed"] = True
                    p.kill()
                    return

        th = threading.Thread(target=watchdog, daemon=True)
        th.start()
        for line in p.stdout:
            if line.startswith("S "):
                last = int(line[2:])
                state["t"] = time.time()
            elif line.startswith("A "):
                armed = last
            elif line.startswith("F "):
                d = json.loads(line[2:])
                d["profile"] = profile
                failures.append(d)
                if len(failures) >= max_failures:
                    # enough evidence; do not grind through thousands of failing cases
                    state["killed"] = True
                    p.kill()
                    p.wait()
                    return ran + (last - start + 1 if last is not None else 0), failures
            elif line.startswith("DONE "):
                parts = line.split()
                ran += int(parts[1])
                done = True
        p.wait()
        stop.set()
        th.join(timeout=1)
        if done and p.returncode == 0:
            return ran, failures
        if last is None:
            raise ToolError("replay binary died before running a case (rc=%s): %s" % (p.returncode, " ".join(cmd)))
        if time.time() > t_end:
            raise ToolError("replay exceeded total timeout")
        kind = "hang" if state["killed"] else "abort"
        if len(failures) >= max_failures:
            return ran + last - start + 1, failures
        if kind == "abort" and armed == last:
            # memory exhaustion overlay: Rust's answer to a refused infallible allocation is to end the process.
            # That is the one permitted outcome besides "the call means what it always means".
            try:
                errf.seek(0, 2)
                errf.seek(max(0, errf.tell() - 4096))
                tail = errf.read().decode("utf-8", "replace")
            except Exception:
                tail = ""
            if "memory allocation of" in tail:
                REPLAY_STATS["oom_aborts"] = REPLAY_STATS.get("oom_aborts", 0) + 1
                ran += last - start + 1
                start = last + 1
                continue
        failures.append({"case": last, "elem": elem, "cap": cap, "profile": profile,
                         "fails": [{"step": -1, "kind": kind, "detail": {"returncode": p.returncode}}]})
        ran += last - start + 1
        start = last + 1


def read_case(cases_path, n):
    with open(cases_path) as f:
        for i, line in enumerate(f):
            if i == n:
                return json.loads(line)
    return None


def read_cases(cases_path, wanted):
    out = {}
    with open(cases_path) as f:
        for i, line in enumerate(f):
            if i in wanted:
                out[i] = json.loads(line)
    return out


def count_lines(path):
    n = 0
    with open(path) as f:
        for _ in f:
            n += 1
    return n


def filter_cases(src, dst, pred):
    n = 0
    with open(src) as fi, open(dst, "w") as fo:
        for line in fi:
            c = json.loads(line)
            if pred(c):
                fo.write(line)
                n += 1
    return n


# --------------------------------------------------------------------------------------
# known findings
# --------------------------------------------------------------------------------------
def load_known():
    p = os.path.join(VERIF, "known_findings.json")
    if not os.path.exists(p):
        return []
    with open(p) as f:
        return json.load(f).get("findings", [])


def match_known(known, prop, sig):
    """sig: dict(op=..., kind=..., family=..., detail=...).  An entry matches when its property
    is `prop`, its status is 'known' and every key of its 'match' dict equals the signature's."""
    for k in known:
        if k.get("status") != "known" or k.get("property") != prop:
            continue
        m = k.get("match", {})
        if all(sig.get(key) == val for key, val in m.items()):
            return k
    return None


# --------------------------------------------------------------------------------------
# trace validation (code -> spec)
# --------------------------------------------------------------------------------------
def validate_trace(workdir, name, module, log_path, invariants=(), timeout=1800, max_rounds=12, xmx="8g", priority=None, enough=None):
    """Validate an ndjson event log against spec/<module>.tla.  The trace specification is deterministic; TLC
    reports a deadlock at the first event it cannot explain.  That event's case is recorded, its events are
    removed, and validation is repeated so that the REST of the trace is checked too.
    Returns (events_validated, rejected[list of dict(line, event, case)], states)."""
    os.makedirs(workdir, exist_ok=True)
    cfgp = os.path.join(workdir, name + ".cfg")
    with open(cfgp, "w") as f:
        f.write("SPECIFICATION Spec\n" + ("INVARIANTS " + " ".join(invariants) + "\n" if invariants else ""))
    rejected = []
    cur = log_path
    total_states = 0
    events_ok = 0
    for rnd in range(max_rounds):
        n = count_lines(cur)
        if n == 0:
            break
        outp = os.path.join(workdir, "%s.round%d.out" % (name, rnd))
        meta = os.path.join(workdir, name + ".trstates")
        cmd = ["java", "-XX:+UseParallelGC", "-Xss512m", "-Xmx" + xmx, "-cp", TLA_CP, "tlc2.TLC", "-workers", "1",
               "-metadir", meta, "-cleanup", "-noGenerateSpecTE", "-config", cfgp, os.path.join(SPEC, module + ".tla")]
        env = dict(os.environ, TRACE=cur)
        t0 = time.time()
        with open(outp, "w") as fo:
            try:
                p = subprocess.run(cmd, cwd=SPEC, env=env, stdout=fo, stderr=subprocess.STDOUT, timeout=timeout)
            except subprocess.TimeoutExpired:
                raise ToolError("TLC trace validation timed out: %s" % " ".join(cmd))
        subprocess.run(["rm", "-rf", meta])
        text = open(outp, errors="replace").read()
        m = re.search(r"(\d+) states generated, (\d+) distinct states found", text)
        if m:
            total_states += int(m.group(2))
        log("[trace] %s round %d: %d events, rc=%d, %.1fs" % (name, rnd, n, p.returncode, time.time() - t0))
        if p.returncode == 0:
            events_ok += n
            return events_ok, rejected, total_states
        if "Deadlock reached" in text or "deadlock" in text.lower():
            ls = re.findall(r"^(?:/\\ )?l = (\d+)", text, re.M)
            if not ls:
                raise ToolError("trace validation: deadlock without a position, see %s" % outp)
            line = int(ls[-1])  # 1-based index of the event that could not be explained
            ev = None
            with open(cur) as f:
                for i, t in enumerate(f, 1):
                    if i == line:
                        ev = json.loads(t)
                        break
            case = ev.get("case") if ev else None
            rejected.append({"line": line, "event": ev, "case": case, "round": rnd})
            events_ok += line - 1
            if enough is not None and enough(rejected):
                # the caller has all the evidence it needs (several rejections that count for the running property):
                # no point in grinding through a badly broken tree round by round
                rejected.append({"line": None, "event": None, "case": None, "round": rnd, "note": "stopped early: enough rejections for this property"})
                return events_ok, rejected, total_states
            # drop every event of that case (or, without case ids, everything up to the next reset) and continue
            nxt = os.path.join(workdir, "%s.round%d.ndjson" % (name, rnd + 1))
            with open(cur) as fi, open(nxt, "w") as fo:
                skipping = False
                for i, t in enumerate(fi, 1):
                    if i <= line:
                        continue
                    e = json.loads(t)
                    if case is not None:
                        if e.get("case") == case:
                            continue
                    else:
                        if i == line + 1:
                            skipping = True
                        if skipping and e.get("ev") != "reset":
                            continue
                        skipping = False
                    fo.write(t)
            cur = nxt
            continue
        if "is violated" in text:
            rejected.append({"line": None, "event": None, "case": None, "round": rnd, "invariant_violated": text[-3000:]})
            return events_ok, rejected, total_states
        raise ToolError("TLC trace validation failed (rc=%s), see %s\n%s" % (p.returncode, outp, text[-2000:]))
    if priority is not None:
        # Many histories are being rejected (the tree is badly broken).  Before giving up, let TLC judge the histories the
        # caller cares most about: those containing an event that satisfies `priority` (e.g. ledger evidence for C05).
        keep = set()
        with open(cur) as f:
            for t in f:
                e = json.loads(t)
                if e.get("case") is not None and priority(e):
                    keep.add(e["case"])
        if keep:
            red = os.path.join(workdir, name + ".prio.ndjson")
            with open(cur) as fi, open(red, "w") as fo:
                for t in fi:
                    if json.loads(t).get("case") in keep:
                        fo.write(t)
            ok2, rej2, st2 = validate_trace(workdir, name + ".prio", module, red, invariants=invariants, timeout=timeout,
                                            max_rounds=max_rounds, xmx=xmx, priority=None, enough=enough)
            rejected.extend(r for r in rej2 if r.get("event") is not None)
            total_states += st2
    rejected.append({"line": None, "event": None, "case": None, "round": max_rounds, "note": "more rejections may exist (round limit reached)"})
    return events_ok, rejected, total_states
