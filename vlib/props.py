"""Per-property pipelines.  Each takes a driver.Ctx and fills it."""
import json, random, os
import core
import gen
from core import cfg_text

# --------------------------------------------------------------------------------------
# history machine (TooDee.tla / TooDeeMC.tla)
# --------------------------------------------------------------------------------------
CTOR_OPS = {"default", "with_capacity", "new", "init", "from_vec", "from_box"}
INSERT_OPS = {"insert_row", "push_row", "insert_col", "push_col"}
REMOVE_OPS = {"remove_row", "pop_row", "remove_col", "pop_col"}
DRAIN_OPS = {"d_next", "d_next_back", "d_len", "d_drop", "d_nth", "d_nth_back", "d_count", "d_last", "d_collect", "d_rcollect", "d_fold", "d_rfold", "d_for_each", "d_find"}

HIST_OP_PROPS = {
    "clear": set(), "swap_dimensions": set(), "reserve": set(), "reserve_exact": set(), "shrink_to_fit": set(),
    "fill": {"C13"}, "swap": {"C13"}, "swap_rows": {"C13"}, "swap_cols": {"C13"}, "set": {"C02"}, "set_flat": {"C02"},
    "translate": {"C15"}, "flip_rows": {"C15"}, "flip_cols": {"C15"},
    "sort_by_row": {"C16"}, "sort_by_col": {"C17"}, "sort_by_row_key": {"C16"}, "sort_row_ord": {"C16"},
    "sort_by_col_key": {"C17"}, "sort_col_ord": {"C17"}, "clone_from_slice": {"C14"}, "clone_from_toodee": {"C14"},
    "clone": {"C20"}, "clone_from": {"C20"}, "into_vec": {"C20"}, "into_box": {"C20"}, "into_iter": {"C20"}, "from_view": {"C03", "C20"},
    "drop": {"C05"}, "end": {"C05"},
}
for _o in CTOR_OPS:
    HIST_OP_PROPS[_o] = {"C20"}
for _o in INSERT_OPS:
    HIST_OP_PROPS[_o] = {"C06"}
for _o in REMOVE_OPS:
    HIST_OP_PROPS[_o] = {"C07"}


def hist_op_at(case, step):
    steps = case["steps"]
    if step is None or step < 0 or step >= len(steps):
        return "end"
    return steps[step]["op"]


def hist_drain_kind(case, step):
    """Is the outstanding handle at `step` a drain (C07) or the by-value iterator (C20)?"""
    for s in reversed(case["steps"][:step]):
        if s["op"] in REMOVE_OPS:
            return "drain"
        if s["op"] == "into_iter":
            return "into_iter"
    return "drain"


def attr_hist(case, fail):
    step = fail.get("step", -1)
    kind = fail["kind"]
    if kind in ("abort", "hang"):
        step = fail.get("detail", {}).get("at_step", len(case["steps"]) - 1)
    op = hist_op_at(case, step)
    if op in DRAIN_OPS:
        opp = {"C07"} if hist_drain_kind(case, step) == "drain" else {"C20"}
    else:
        opp = set(HIST_OP_PROPS.get(op, set()))
    in_c01 = op != "from_view"
    props = set()
    if kind.startswith("ledger"):
        props = {"C05"}
        if kind in ("ledger.cells", "ledger.double_drop"):
            # an operation that destroys elements it was supposed to keep in place also fails its own contract
            props |= opp
    elif kind == "res":
        props = set(opp)
    elif kind == "held":
        props = set(opp)
    elif kind in ("proj", "shape", "shape.lens", "redzone", "abort", "hang"):
        props = set(opp)
        if in_c01:
            props.add("C01")
    else:
        props = set(opp) | {"C01"}
    d = fail.get("detail", {}) if isinstance(fail.get("detail"), dict) else {}
    sig = {"family": "hist", "op": op, "kind": kind,
           "expected": (d.get("expected") or {}).get("k") if isinstance(d.get("expected"), dict) else None,
           "observed": (d.get("observed") or {}).get("k") if isinstance(d.get("observed"), dict) else None}
    return props, sig


def attr_hist_event(case, ev):
    """A rejected event of a driver history: shape / projection / ledger all live in one event, so the rejection is
    attributed to the op's own property, to C01 (the cells or dimensions differ from the model) and to C05 (ledger)."""
    op = ev.get("ev")
    if op in DRAIN_OPS:
        opp = {"C07", "C20"}
    else:
        opp = set(HIST_OP_PROPS.get(op, set()))
    props = set(opp) | {"C01", "C05"}
    return props, {"family": "trace", "op": op, "kind": "trace_rejected"}


def hist_key(case):
    steps = case["steps"]
    last = steps[-1]
    pre = steps[-2]["x"] if len(steps) > 1 else {"nc": 0, "nr": 0}
    trivial = pre.get("nc", 0) == 0 and last["op"] in ("flip_rows", "flip_cols", "shrink_to_fit", "reserve", "reserve_exact")
    if trivial:
        return None
    return [last["op"], last["a"], pre.get("nc", 0), pre.get("nr", 0), [s["op"] for s in steps[:-1]][-3:]]


def hist_tlc_edges(ctx, name, maxc, maxr, workers=1, ops=(), faults=()):
    cfg = cfg_text(constants={"MaxC": maxc, "MaxR": maxr, "Emit": True, "Walk": False, "WalkLen": 0, "EmitOps": set(ops),
                              "Faults": set(faults)},
                   constraints=["Bounded"], view="View", invariants=["ShapeOK", "HandleOK", "GoneIsEmpty"])
    return ctx.tlc_run(name, "TooDeeMC", cfg, workers=workers, coverage=True)


def hist_tlc_walks(ctx, name, maxc, maxr, num, depth):
    cfg = cfg_text(constants={"MaxC": maxc, "MaxR": maxr, "Emit": True, "Walk": True, "WalkLen": depth, "EmitOps": set(),
                              "Faults": set()},
                   constraints=["Bounded"], invariants=["ShapeOK", "HandleOK", "GoneIsEmpty", "WalkEmit"])
    return ctx.tlc_run(name, "TooDeeMC", cfg, workers=1, simulate="num=%d" % num, seed=ctx.seed, depth=depth + 1)


def last_op_in(ops):
    return lambda c: c["steps"][-1]["op"] in ops


def any_op_in(ops):
    return lambda c: any(s["op"] in ops for s in c["steps"])


def p_C01(ctx):
    ctx.rule = ("cases = every transition TLC explores from every reachable abstract state of the history machine "
                "(each with a shortest real history reaching it) plus random walks; distinct by (final call, its arguments, "
                "shape before, last ops of the prefix); trivial = capacity/flip calls on an empty array")
    ctx.assumptions = HIST_ASSUME
    m = 3 if ctx.quick else 4
    r = hist_tlc_edges(ctx, "edges", m, m)
    ctx.count_nontrivial(r.cases_path, hist_key)
    ctx.sample_from(r.cases_path)
    ctx.replay(r.cases_path, attr_hist, profile="dev", elem="elem", cap=0, label="edges")
    ctx.replay(r.cases_path, attr_hist, profile="release", elem="u32", cap=1, label="edges")
    ctx.replay(r.cases_path, attr_hist, profile="dev", elem="zst", cap=2, label="edges")
    if not ctx.quick:
        ctx.replay(r.cases_path, attr_hist, profile="release", elem="elem", cap=2, label="edges")
        ctx.replay(r.cases_path, attr_hist, profile="dev", elem="u32", cap=0, label="edges")
    w = hist_tlc_walks(ctx, "walks", 4, 4, 150 if ctx.quick else 3000, 40)
    ctx.count_nontrivial(w.cases_path, lambda c: [s["op"] for s in c["steps"]] + [c["steps"][-1]["a"]])
    ctx.sample_from(w.cases_path, 1)
    ctx.replay(w.cases_path, attr_hist, profile="dev", elem="elem", cap=1, label="walks")
    ctx.replay(w.cases_path, attr_hist, profile="release", elem="elem", cap=0, label="walks")
    # third binding path: the repository's own tests, run with the cfg-guarded hook, become trace drivers
    def attr_hook_event(case, ev):
        op = ev.get("op")
        props = {"C01"} | ({"C11"} if ev.get("panicked") else set())
        props |= {"insert_row": {"C06"}, "insert_col": {"C06"}, "remove_row": {"C07"}, "remove_col": {"C07"}, "drain_col_drop": {"C07"},
                  "new": {"C20"}, "init": {"C20"}, "from_vec": {"C20"}}.get(op, set())
        return props, {"family": "hooktrace", "op": op, "kind": "trace_rejected"}
    ctx.repo_tests_trace(attr_hook_event)
    # unbounded dimensions: the shape invariant of the dimension-only projection (Shape.tla) is inductive (Apalache)
    ctx.apalache_inductive("Shape", "Init", "IndInit", "Inv")
    # code -> spec: long random histories on larger shapes, recorded from the real crate and validated by TLC
    nh, steps = (120, 60) if ctx.quick else (1500, 120)
    ctx.drive_and_validate("drive-hist", ["hist", ctx.seed, nh, steps, 6, "{out}", "elem"], "TooDeeTrace", attr_hist_event,
                           profile="dev", invariants=("ShapeOK", "HandleOK"))
    ctx.drive_and_validate("drive-hist", ["hist", ctx.seed + 1, nh, steps, 9, "{out}", "u32"], "TooDeeTrace", attr_hist_event,
                           profile="release", invariants=("ShapeOK", "HandleOK"))


HIST_ASSUME = ["rustc/std Vec, slice and sort implementations", "TLC and the CommunityModules Json module",
               "the harness op interpreter and projection (shared by replay and trace validation)"]


def p_C05(ctx):
    ctx.rule = ("history cases as C01 (edges of the history machine + random walks) replayed with the ledger-carrying element "
                "type and the zero-sized type; after every step: no double drop, no dead/duplicated cell, live elements = "
                "array + handed to caller; at the end nothing live.  Plus (never twice / never while reachable is unconditional) the fault "
                "edges of C11 and the leak edges of C12 and random fault histories, validated by TooDeeTrace.tla; of those only "
                "rejections whose event shows a double drop, a duplicated owner or a dead reachable cell count for C05. "
                "distinct by (final call, args, shape, prefix tail)")
    ctx.assumptions = HIST_ASSUME
    rawmem_check(ctx)      # Layer B: the raw-memory algorithms satisfy the memory-level invariants at every crash point
    m = 3 if ctx.quick else 4
    r = hist_tlc_edges(ctx, "edges", m, m)
    ctx.count_nontrivial(r.cases_path, hist_key)
    ctx.sample_from(r.cases_path)
    ctx.replay(r.cases_path, attr_hist, profile="dev", elem="elem", cap=1, label="edges")
    ctx.replay(r.cases_path, attr_hist, profile="release", elem="elem", cap=0, label="edges")
    ctx.replay(r.cases_path, attr_hist, profile="release", elem="zst", cap=0, label="edges")
    ctx.replay(r.cases_path, attr_hist, profile="release", elem="elem40", cap=1, label="edges")     # drop glue AND wider than two words
    ctx.replay(r.cases_path, attr_hist, profile="release", elem="elem8", cap=0, label="edges")      # drop glue AND word-sized (Box / Rc-like)
    if not ctx.quick:
        ctx.replay(r.cases_path, attr_hist, profile="dev", elem="zst", cap=1, label="edges")
        ctx.replay(r.cases_path, attr_hist, profile="dev", elem="elem", cap=2, label="edges")
    w = hist_tlc_walks(ctx, "walks", 4, 4, 150 if ctx.quick else 3000, 40)
    ctx.count_nontrivial(w.cases_path, lambda c: [s["op"] for s in c["steps"]] + [c["steps"][-1]["a"]])
    ctx.sample_from(w.cases_path, 1)
    ctx.replay(w.cases_path, attr_hist, profile="dev", elem="elem", cap=0, label="walks")
    ctx.replay(w.cases_path, attr_hist, profile="release", elem="zst", cap=1, label="walks")
    nh, steps = (120, 60) if ctx.quick else (1500, 120)
    ctx.drive_and_validate("drive-hist", ["hist", ctx.seed + 2, nh, steps, 6, "{out}", "elem"], "TooDeeTrace", attr_hist_event,
                           profile="release", invariants=("ShapeOK", "HandleOK"))
    ctx.drive_and_validate("drive-hist-zst", ["hist", ctx.seed + 3, nh, steps, 5, "{out}", "zst"], "TooDeeTrace", attr_hist_event,
                           profile="dev", invariants=("ShapeOK", "HandleOK"))
    # "never twice, never while reachable" is unconditional: histories with a panic in caller code or a leaked drain / iterator
    # count too (C11 / C12 judge the array left behind; here only the ledger part of a rejection is attributed to C05)
    fm = 3
    ctx.priority_event = ledger_evidence     # if many histories are rejected, TLC judges those with ledger evidence first
    rf = hist_tlc_edges(ctx, "faults", fm, fm, ops=("none",), faults=("iter", "clone", "default", "drop", "closure", "cmp"), workers=4)
    ctx.replay_and_validate(rf.cases_path, attr_fault_replay, attr_fault_event, profile="dev", elem="elem", cap=0, label="faults")
    rl = hist_tlc_edges(ctx, "leaks", fm, fm, ops=("leak_borrow",), faults=("forget",), workers=4)
    ctx.replay_and_validate(rl.cases_path, attr_fault_replay, attr_fault_event, profile="release", elem="elem", cap=1, label="leaks")
    if not ctx.quick:
        ctx.replay_and_validate(rf.cases_path, attr_fault_replay, attr_fault_event, profile="release", elem="elem", cap=2, label="faults")
        ctx.replay_and_validate(rl.cases_path, attr_fault_replay, attr_fault_event, profile="dev", elem="zst", cap=0, label="leaks")

    def attr_fault_drive_event(case, ev):
        f = ev.get("fault", {})
        return ({"C11"} if f.get("kind") in ("panic_at", "lie") else {"C11", "C12"}) | ({"C05"} if ledger_evidence(ev) else set()), \
            {"family": "fault-drive", "op": ev.get("ev"), "kind": "trace_rejected", "fault": f.get("kind")}
    nh, steps = (250, 40) if ctx.quick else (3000, 80)
    ctx.drive_and_validate("drive-faults", ["hist", ctx.seed + 21, nh, steps, 6, "{out}", "elem", "faults"], "TooDeeTrace",
                           attr_fault_drive_event, profile="dev", invariants=("ShapeOK", "HandleOK"))


def p_C06(ctx):
    ctx.rule = ("every insert_row/push_row/insert_col/push_col transition from every reachable shape: index 0..dim+1 and huge "
                "(usize::MAX, wrap-adversarial), supplied length 0..dim+1; x element types x capacity modes x build profiles; "
                "distinct by (call, args, shape before)")
    ctx.assumptions = HIST_ASSUME
    rawmem_check(ctx)      # Layer B: the raw-memory algorithms satisfy the memory-level invariants at every crash point
    m = 4 if ctx.quick else 5
    r = hist_tlc_edges(ctx, "edges", m, m, ops=INSERT_OPS, workers=4)
    ctx.count_nontrivial(r.cases_path, hist_key)
    ctx.sample_from(r.cases_path)
    combos = [("dev", "elem", 0), ("dev", "elem", 1), ("release", "u32", 1), ("release", "elem", 2), ("dev", "zst", 0), ("release", "zst", 1),
              ("release", "tok", 0), ("release", "w24", 1), ("release", "w64k", 0), ("dev", "elem40", 0), ("release", "elem8", 1)]
    if not ctx.quick:
        combos += [("dev", "u32", 0), ("dev", "u32", 2), ("release", "elem", 0), ("release", "elem", 1), ("dev", "elem", 2), ("dev", "tok", 1)]
    for prof, elem, cap in combos:
        ctx.replay(r.cases_path, attr_hist, profile=prof, elem=elem, cap=cap, label="insert-edges")
    # code -> spec: random histories incl. LARGE arrays (long rows/columns, hundreds of cells) validated by TLC
    nh, steps = (150, 50) if ctx.quick else (2000, 100)
    ctx.drive_and_validate("drive-hist", ["hist", ctx.seed + 11, nh, steps, 6, "{out}", "elem"], "TooDeeTrace", attr_hist_event,
                           profile="dev", invariants=("ShapeOK", "HandleOK"))
    # (u32: two of these histories start from about 10^6 cells - exact capacity, then insert_row / insert_col in the middle)
    ctx.drive_and_validate("drive-hist-u32", ["hist", ctx.seed + 12, nh, steps, 8, "{out}", "u32"], "TooDeeTrace", attr_hist_event,
                           profile="release", invariants=("ShapeOK", "HandleOK"))


def p_C07(ctx):
    ctx.rule = ("every remove_row/pop_row/remove_col/pop_col transition and every drain step (next/next_back/len/drop) from "
                "every (shape, removed index, taken-from-front, taken-from-back) state; x element types x capacity modes x "
                "profiles; distinct by (call, args, shape, drain position)")
    ctx.assumptions = HIST_ASSUME
    rawmem_check(ctx)      # Layer B: the raw-memory algorithms satisfy the memory-level invariants at every crash point
    m = 4 if ctx.quick else 5
    r = hist_tlc_edges(ctx, "edges", m, m, ops=REMOVE_OPS | DRAIN_OPS, workers=4)
    sel = os.path.join(ctx.outdir, "drain.cases.ndjson")
    core.filter_cases(r.cases_path, sel, lambda c: c["steps"][-1]["op"] in REMOVE_OPS or hist_drain_kind(c, len(c["steps"]) - 1) == "drain")
    ctx.count_nontrivial(sel, lambda c: [c["steps"][-1]["op"], c["steps"][-1]["a"], [(s["op"], s["a"]) for s in c["steps"][:-1]][-6:]])
    ctx.sample_from(sel)
    # w8 / w24: one and three machine words (u64-, String-like layouts); elem40: drop glue and wider than two words
    combos = [("dev", "elem", 0), ("dev", "elem", 1), ("release", "u32", 1), ("release", "elem", 2), ("dev", "zst", 0),
              ("release", "w8", 1), ("release", "w24", 0), ("release", "elem40", 0), ("release", "elem8", 0), ("dev", "elem8", 1)]
    if not ctx.quick:
        combos += [("dev", "u32", 0), ("release", "zst", 1), ("release", "elem", 0), ("dev", "elem", 2)]
    for prof, elem, cap in combos:
        ctx.replay(sel, attr_hist, profile=prof, elem=elem, cap=cap, label="drain-edges")
    # code -> spec: random histories incl. LARGE arrays (long rows/columns, hundreds of cells) validated by TLC
    nh, steps = (150, 50) if ctx.quick else (2000, 100)
    ctx.drive_and_validate("drive-hist", ["hist", ctx.seed + 13, nh, steps, 6, "{out}", "elem"], "TooDeeTrace", attr_hist_event,
                           profile="dev", invariants=("ShapeOK", "HandleOK"))
    ctx.drive_and_validate("drive-hist", ["hist", ctx.seed + 14, nh, steps, 8, "{out}", "elem"], "TooDeeTrace", attr_hist_event,
                           profile="release", invariants=("ShapeOK", "HandleOK"))
    # plain 4-byte cells: the mega histories (over 2^20 cells behind a line removed near the front) only exist for them
    ctx.drive_and_validate("drive-hist-u32", ["hist", ctx.seed + 15, nh, steps, 8, "{out}", "u32"], "TooDeeTrace", attr_hist_event,
                           profile="release", invariants=("ShapeOK", "HandleOK"))


# --------------------------------------------------------------------------------------
# receiver family (Access.tla / AccessMC.tla)
# --------------------------------------------------------------------------------------
BIG_MAX, BIG_HALF, BIG_HALF1, BIG_P32, BIG_WRAP = 1000001, 1000002, 1000003, 1000004, 1000005
ACC_READ = {"idx_coord", "idx_row", "col_idx", "get_unchecked", "get_unchecked_row", "row", "col", "size", "debug", "as_view"}
ACC_WRITE = {"idxm_coord", "idxm_row", "colm_idx", "colm_idxm", "get_unchecked_mut", "get_unchecked_row_mut"}
ACC_OP_PROPS = {"col": {"C02", "C09"}, "size": {"C03"}, "debug": {"C03"}, "as_view": {"C02", "C03"}, "view": {"C03"}, "view_mut": {"C03"},
                "fill": {"C13"}, "swap": {"C13"}, "swap_rows": {"C13"}, "swap_cols": {"C13"}, "row_pair_swap": {"C13"},
                "write_rows_mut": {"C08"}, "write_cells_mut": {"C10"}, "write_col_mut": {"C09"},
                "copy_from_slice": {"C14"}, "clone_from_slice": {"C14"}, "copy_from_toodee": {"C14"},
                "clone_from_toodee": {"C14"}, "copy_within": {"C14"},
                "translate": {"C15"}, "flip_rows": {"C15"}, "flip_cols": {"C15"}}
for _o in (ACC_READ | ACC_WRITE) - {"col", "size", "debug", "as_view"}:
    ACC_OP_PROPS[_o] = {"C02"}
ACC_MUTATING = (ACC_WRITE - {"colm_idx"}) | {"view_mut", "fill", "swap", "swap_rows", "swap_cols", "row_pair_swap", "write_rows_mut",
                "write_cells_mut", "write_col_mut", "copy_from_slice", "clone_from_slice", "copy_from_toodee",
                "clone_from_toodee", "copy_within", "translate", "flip_rows", "flip_cols", "sort"}


def acc_recv_size(case):
    nc, nr = case["root"]["nc"], case["root"]["nr"]
    size = (nc, nr)
    for w in case["stack"]:
        ext = (w["e"][0] - w["s"][0], w["e"][1] - w["s"][1])
        size = (0, 0) if ext[0] == 0 or ext[1] == 0 else ext
    return size


def attr_acc(case, fail):
    kind = fail["kind"]
    calls = case["calls"]
    step = fail.get("step", -1)
    if kind in ("abort", "hang") or step < 0 or step >= len(calls):
        step = len(calls) - 1
    call = calls[step]
    op = call["op"]
    a = call["a"]
    if op == "sort":
        opp = {"C16"} if a["by"] == "row" else {"C17"}
    else:
        opp = set(ACC_OP_PROPS.get(op, set()))
    through_view = len(case["stack"]) > 0 or case["root"]["kind"] == "slice_m"
    props = set()
    if kind.startswith("ledger"):
        props = {"C05"}
    elif kind == "stack_build":
        props = {"C03"}
    else:
        props = set(opp)
        if through_view and op in ACC_MUTATING and kind in ("frame", "root", "inside", "root_shape", "redzone", "abort"):
            props.add("C04")
    d = fail.get("detail", {}) if isinstance(fail.get("detail"), dict) else {}
    size = acc_recv_size(case)
    sig = {"family": "acc", "op": op, "kind": kind, "root_kind": case["root"]["kind"], "depth": len(case["stack"]),
           "empty_receiver": size[0] == 0,
           "expected": (d.get("expected") or {}).get("k") if isinstance(d.get("expected"), dict) else None,
           "observed": (d.get("observed") or {}).get("k") if isinstance(d.get("observed"), dict) else None}
    if op == "sort":
        sig.update({"by": a["by"], "form": a["form"], "stable": a["stable"]})
    return props, sig


def acc_key(case):
    call = case["calls"][-1]
    return [case["root"]["kind"], case["root"]["nc"], case["root"]["nr"], case["stack"], call["op"], call["a"], len(case["calls"])]


ALL_SHAPES3 = [0, 11, 12, 13, 21, 22, 23, 31, 32, 33]
ALL_SHAPES4 = ALL_SHAPES3 + [14, 24, 34, 41, 42, 43, 44]
ACC_INVS = ["FrameInv", "RootShapeInv", "RejectInv", "RearrangeInv"]
ACC_ASSUME = ["rustc/std slice, sort and rotate implementations", "TLC and the CommunityModules Json/SequencesExt modules",
              "the harness receiver interpreter (nested views are rebuilt through the public view()/view_mut() calls)"]


def acc_tlc(ctx, name, groups, shapes, kinds=("owned",), depth=1, mutdepth=1, bigs=(BIG_MAX, BIG_WRAP), workers=8):
    cfg = cfg_text(constants={"Shapes": set(shapes), "RootKinds": set(kinds), "Depth": depth, "MutDepth": mutdepth,
                              "Groups": set(groups), "BigArgs": set(bigs)},
                   view="View", invariants=ACC_INVS)
    return ctx.tlc_run(name, "AccessMC", cfg, workers=workers, coverage=False, xmx="8g")


def acc_replays(ctx, r, combos, label):
    ctx.count_nontrivial(r.cases_path, acc_key)
    ctx.sample_from(r.cases_path)
    for prof, elem in combos:
        ctx.replay(r.cases_path, attr_acc, profile=prof, elem=elem, label=label)



def attr_acc_event(case, ev):
    """a rejected event of a random receiver-family case"""
    if case is None:
        return set(), {"family": "acc-trace", "kind": "trace_rejected"}
    return attr_acc(case, {"step": 0, "kind": "root", "detail": {}})


def acc_random(ctx, groups, n, maxdim, only_views=False, profile="dev", elem="u32", label="big", large_share=0.25):
    def generate(path):
        made = gen.acc_cases(ctx.seed + (0 if profile == "dev" else 101), n, maxdim, groups, path, large_share=large_share)
        if only_views:
            tmp = path + ".tmp"
            core.filter_cases(path, tmp, lambda c: len(c["stack"]) > 0)
            os.replace(tmp, path)
        return made
    ctx.random_cases_validate(label, generate, "AccessTrace", attr_acc, attr_acc_event, profile=profile, elem=elem, invariants=("TypeOK",))


def p_C02(ctx):
    ctx.rule = ("every accessor form (x[(c,r)], x[r][c], x.col(c)[r], mutable forms, unchecked getters, row, col) with every "
                "coordinate 0..dim+1 and huge/wrap-adversarial values, on every receiver: owned, slice-built view, view and "
                "mutable view at every window position (and nested, thorough); identity of the cell is checked by id AND address; "
                "distinct by (root kind, shape, window stack, accessor, coordinate)")
    ctx.assumptions = ACC_ASSUME
    addr_check(ctx)       # Layer B: W-bit address arithmetic of the accessors, both build flavours
    if ctx.quick:
        r = acc_tlc(ctx, "access", ["read", "write"], [0, 11, 13, 31, 23, 32], kinds=("owned", "slice_v", "slice_m"), depth=1)
        combos = [("dev", "u32"), ("release", "u32"), ("release", "elem")]
    else:
        r = acc_tlc(ctx, "access", ["read", "write"], ALL_SHAPES3, kinds=("owned", "slice_v", "slice_m"), depth=2,
                    bigs=(BIG_MAX, BIG_HALF, BIG_HALF1, BIG_P32, BIG_WRAP), workers=12)
        combos = [("dev", "u32"), ("release", "u32"), ("dev", "elem"), ("release", "elem"), ("release", "zst")]
    acc_replays(ctx, r, combos, "access")
    acc_random(ctx, ["read", "write"], 3000 if ctx.quick else 40000, 12, profile="release")
    giant_check(ctx, lambda c: c["t"] == "acc")          # giant zero-sized arrays: strides / coordinates near 2^32 .. 2^64


def p_C03(ctx):
    ctx.rule = ("every window request (start,end) with components 0..dim+1 (valid and invalid) plus huge values, made on every "
                "receiver (owned / slice-built / view / mutable view, nested to depth 2 quick, 3 thorough); the resulting window "
                "is compared cell by cell; through view_mut every cell is overwritten and the whole root compared; "
                "distinct by (root kind, shape, stack, request)")
    ctx.assumptions = ACC_ASSUME
    addr_check(ctx)       # Layer B: W-bit range arithmetic of calculate_view_dimensions, both build flavours
    if ctx.quick:
        r = acc_tlc(ctx, "views", ["view"], [0, 11, 13, 31, 23, 32, 33], kinds=("owned", "slice_v", "slice_m"), depth=1)
        combos = [("dev", "u32"), ("release", "u32"), ("dev", "elem")]
        acc_replays(ctx, r, combos, "views")
        r = acc_tlc(ctx, "views-depth2", ["view"], [22, 23], kinds=("owned", "slice_m"), depth=2, bigs=(BIG_MAX,))
        combos = [("dev", "u32"), ("release", "u32")]
    else:
        r = acc_tlc(ctx, "views", ["view"], ALL_SHAPES3, kinds=("owned", "slice_v", "slice_m"), depth=2,
                    bigs=(BIG_MAX, BIG_HALF1, BIG_P32, BIG_WRAP), workers=12)
        combos = [("dev", "u32"), ("release", "u32"), ("dev", "elem"), ("release", "elem"), ("dev", "zst")]
    acc_replays(ctx, r, combos, "views")
    if not ctx.quick:
        r3 = acc_tlc(ctx, "views-depth3", ["view"], [22, 23, 32], kinds=("owned",), depth=3, bigs=(BIG_MAX,), workers=12)
        acc_replays(ctx, r3, [("dev", "u32"), ("release", "u32")], "views-depth3")
    acc_random(ctx, ["read", "write"], 3000 if ctx.quick else 40000, 12, profile="dev")
    giant_check(ctx, lambda c: c["t"] == "view")
    # a window turned into an owned array (From<TooDeeView> / From<TooDeeViewMut> for TooDee) holds exactly the window's cells
    m = 3 if ctx.quick else 4
    rh = hist_tlc_edges(ctx, "from-view", m, m, ops=("from_view",))
    for prof, elem, cap in [("dev", "elem", 0), ("release", "u32", 1)]:
        ctx.replay(rh.cases_path, attr_hist, profile=prof, elem=elem, cap=cap, label="from-view")


MUT_GROUPS = ["write", "prim", "copy", "move", "sortrow", "sortcol"]


def p_C04(ctx):
    ctx.rule = ("every mutating trait operation (indexed writes, fill, swap family, row_pair_mut, rows_mut/col_mut/cells_mut "
                "write-through forwards and backwards, the copy family, translate, flips, all sort variants with all key patterns) "
                "with every argument, through a mutable view at every window position of every parent shape (nested, thorough); "
                "the WHOLE root is compared with Embed(root, window, Op(window)); plus every call SEQUENCE (next, next_back, nth, "
                "nth_back, last, fold, ... up to a depth bound) of rows_mut / col_mut / cells_mut / &mut-IntoIterator through every "
                "window with every yielded reference written through; distinct by (shape, stack, op, args)")
    ctx.assumptions = ACC_ASSUME
    if ctx.quick:
        r = acc_tlc(ctx, "mutview", MUT_GROUPS, [13, 31, 23, 32, 33], kinds=("owned", "slice_m"), depth=1)
        combos = [("dev", "u32"), ("release", "u32"), ("dev", "elem")]
    else:
        r = acc_tlc(ctx, "mutview", MUT_GROUPS, ALL_SHAPES3 + [24, 42, 34, 43], kinds=("owned", "slice_m"), depth=1, workers=12)
        combos = [("dev", "u32"), ("release", "u32"), ("dev", "elem"), ("release", "elem")]
    sel = os.path.join(ctx.outdir, "mutview.sel.ndjson")
    core.filter_cases(r.cases_path, sel, lambda c: len(c["stack"]) > 0 or c["root"]["kind"] == "slice_m")
    r.cases_path = sel
    acc_replays(ctx, r, combos, "mutview")
    if not ctx.quick:
        r2 = acc_tlc(ctx, "mutview-nested", ["write", "prim", "move", "copy"], [23, 32, 33], kinds=("owned",), depth=2, mutdepth=2, workers=12)
        sel2 = os.path.join(ctx.outdir, "mutview2.sel.ndjson")
        core.filter_cases(r2.cases_path, sel2, lambda c: len(c["stack"]) > 0)
        r2.cases_path = sel2
        acc_replays(ctx, r2, [("dev", "u32"), ("release", "elem")], "mutview-nested")
    acc_random(ctx, ["prim", "move", "move", "copy", "copy", "write", "sort"], 9000 if ctx.quick else 90000, 12, only_views=True, profile="dev", large_share=0.35)
    acc_random(ctx, ["prim", "move", "copy", "write", "sort"], 2000 if ctx.quick else 30000, 9, only_views=True, profile="release", elem="elem", label="big-elem")
    acc_random(ctx, ["prim", "move", "copy", "write"], 1500 if ctx.quick else 20000, 9, only_views=True, profile="release", elem="w1k", label="kib-elem", large_share=0.4)
    # long and MEGA (2^18) sort lines through windows narrower than their parent: the driver records whether any parent cell
    # outside the window changed (SortTrace.tla: outside_ok)
    for prof in ("dev", "release"):
        ctx.drive_and_validate("bigsorts", ["sort", ctx.seed + (3 if prof == "dev" else 7922), 300 if ctx.quick else 3000, "{out}"], "SortTrace",
                               attr_sort_event, profile=prof, invariants=("StableDefsAgree",))
    # mutable iteration in EVERY call order (not only forwards / backwards): all call sequences of the mutable iterators
    # through every window, every yielded reference written through, whole root compared (SeqIter.tla / IterMC.tla)
    mk = ["rows_mut", "col_mut", "cells_mut", "into_mut"]
    si = iter_tlc(ctx, "mutiter-sequences", mk, [23] if ctx.quick else [13, 31, 23, 32, 33], rkinds=("owned", "slice_m"), depth=1,
                  bigs=(BIG_MAX,), seqmode=True, maxcalls=2, workers=8 if ctx.quick else 12)
    seli = os.path.join(ctx.outdir, "mutiter.sel.ndjson")
    core.filter_cases(si.cases_path, seli, lambda c: len(c["stack"]) > 0)
    ctx.count_nontrivial(seli, iter_key)
    ctx.sample_from(seli, 1)
    for prof, elem in [("dev", "u32"), ("release", "elem")]:
        ctx.replay(seli, attr_iter, profile=prof, elem=elem, label="mutiter-sequences")


def p_C13(ctx):
    ctx.rule = ("swap / swap_rows / swap_cols / row_pair_mut / fill with every index pair 0..dim+1 plus huge values (equal, reversed, "
                "out of range) on all three implementors: TooDee (overrides), TooDeeViewMut at every window (overrides), and a "
                "third-party type implementing only the required methods (trait defaults); whole root compared; "
                "distinct by (implementor, shape, stack, op, args)")
    ctx.assumptions = ACC_ASSUME
    shapes = [0, 11, 13, 31, 23, 32, 33] if ctx.quick else ALL_SHAPES4
    r = acc_tlc(ctx, "prims", ["prim"], shapes, kinds=("owned", "plain", "torus", "plainv", "slice_m"), depth=1,
                bigs=(BIG_MAX, BIG_WRAP) if ctx.quick else (BIG_MAX, BIG_HALF1, BIG_P32, BIG_WRAP), workers=8 if ctx.quick else 12)
    # b3 / b1 / w80: Copy element types of 3, 1 and 80 bytes (word-at-a-time, memset and "large element" fast paths)
    combos = [("dev", "u32"), ("release", "elem"), ("dev", "elem"), ("release", "b3"), ("release", "b1"), ("release", "w80"), ("dev", "a128"), ("release", "w8")]
    if not ctx.quick:
        combos += [("release", "u32"), ("dev", "zst"), ("dev", "b3"), ("dev", "b1"), ("dev", "w80"), ("release", "w24")]
    acc_replays(ctx, r, combos, "prims")
    # a mebibyte per element (dev profile: std's pointer precondition checks), tiny shapes; the quick tier replays a sample
    rm = acc_tlc(ctx, "prims-mib", ["prim"], [11, 21, 12] if ctx.quick else [0, 11, 12, 21, 22], kinds=("owned", "slice_m"), depth=1, bigs=(BIG_MAX,))
    selm = os.path.join(ctx.outdir, "prims-mib.sel.ndjson")
    with open(rm.cases_path) as f:
        lines = f.readlines()
    if ctx.quick and len(lines) > 1200:
        random.Random(ctx.seed).shuffle(lines)
        lines = lines[:1200]
    with open(selm, "w") as f:
        f.writelines(lines)
    ctx.replay(selm, attr_acc, profile="dev", elem="w1m", label="prims-mib")
    acc_random(ctx, ["prim"], 3000 if ctx.quick else 40000, 12, profile="dev")
    acc_random(ctx, ["prim"], 2000 if ctx.quick else 20000, 12, profile="release", elem="elem", label="big-elem")
    acc_random(ctx, ["prim"], 2000 if ctx.quick else 20000, 12, profile="release", elem="b3", label="big-b3")
    acc_random(ctx, ["prim"], 1000 if ctx.quick else 10000, 12, profile="release", elem="w1k", label="kib-elem", large_share=0.4)


def p_C14(ctx):
    ctx.rule = ("copy_from_slice / clone_from_slice / copy_from_toodee / clone_from_toodee with source sizes around the destination's "
                "(equal, one more, one less; owned / view / strided-view sources) on every destination (owned, every window incl. "
                "empty ones); copy_within with every source rectangle x every destination corner 0..dim+1 plus non-fitting and huge "
                "values; whole root compared; distinct by (root kind, shape, stack, op, args)")
    ctx.assumptions = ACC_ASSUME
    algos_check(ctx, ["copywithin"])      # Layer B: the row loop with its direction choice computes Grid!CopyWithin
    shapes = [0, 11, 13, 31, 23, 32, 33] if ctx.quick else ALL_SHAPES4
    r = acc_tlc(ctx, "copies", ["copy"], shapes, kinds=("owned", "plain", "plainv", "slice_m"), depth=1,
                bigs=(BIG_MAX,) if ctx.quick else (BIG_MAX, BIG_HALF1, BIG_WRAP), workers=8 if ctx.quick else 12)
    # z0: zero-sized Copy cells (nothing to move, every check must still be made); a128: alignment 128 (dev: std's pointer checks)
    combos = [("dev", "u32"), ("release", "b3"), ("dev", "elem"), ("release", "w80"), ("release", "b1"), ("release", "z0"), ("dev", "a128"), ("release", "w8"), ("release", "w24")] + ([] if ctx.quick else [("release", "u32"), ("dev", "b3"), ("dev", "w80")])
    acc_replays(ctx, r, combos, "copies")
    acc_random(ctx, ["copy"], 9000 if ctx.quick else 80000, 12, profile="dev", large_share=0.4)
    acc_random(ctx, ["copy"], 6000 if ctx.quick else 40000, 12, profile="release", label="big-rel", large_share=0.4)
    acc_random(ctx, ["copy"], 1500 if ctx.quick else 20000, 12, profile="release", elem="w1k", label="kib-elem", large_share=0.4)


def p_C15(ctx):
    ctx.rule = ("translate_with_wrap with every mid 0..dim+1 plus huge values, flip_rows, flip_cols on owned arrays of every shape up "
                "to 6x6 (quick) / 9x9 (thorough) - every gcd cycle structure - and through mutable views at every window of shapes "
                "up to 4x4; whole root compared; distinct by (shape, stack, op, mid)")
    ctx.assumptions = ACC_ASSUME
    algos_check(ctx, ["translate"])       # Layer B: the cycle-leader walk computes Grid!Translate, terminates, stays in range
    n = 6 if ctx.quick else 9
    big_shapes = [c * 10 + r for c in range(1, n + 1) for r in range(1, n + 1)] + [0]
    r = acc_tlc(ctx, "moves-owned", ["move"], big_shapes, kinds=("owned", "plain", "plainv"), depth=0, workers=8)
    acc_replays(ctx, r, [("dev", "u32"), ("release", "elem"), ("release", "w80"), ("dev", "a128")], "moves-owned")
    r2 = acc_tlc(ctx, "moves-views", ["move"], [13, 31, 23, 32, 33] if ctx.quick else ALL_SHAPES4, kinds=("owned", "slice_m"), depth=1, workers=8)
    acc_replays(ctx, r2, [("dev", "u32"), ("release", "b3"), ("dev", "elem"), ("release", "b1"), ("release", "w80"), ("dev", "a128"), ("release", "z0"), ("release", "w8")], "moves-views")
    acc_random(ctx, ["move"], 4000 if ctx.quick else 60000, 16, profile="dev")
    acc_random(ctx, ["move"], 2000 if ctx.quick else 30000, 16, profile="release", elem="elem", label="big-elem")
    # 1 KiB elements: rows of a few dozen cells are already "larger than the cache" for any byte-size-gated path
    acc_random(ctx, ["move"], 1500 if ctx.quick else 20000, 16, profile="release", elem="w1k", label="kib-elem", large_share=0.4)
    afail_stage(ctx, ("translate", "flip_rows", "flip_cols"))


def sort_pipeline(ctx, by):
    grp = "sortrow" if by == "row" else "sortcol"
    ctx.assumptions = ACC_ASSUME
    algos_check(ctx, ["swaptrace"])       # Layer B: build_swap_trace realises the sorting permutation with in-range indices
    shapes = [0, 11, 13, 31, 23, 32, 33, 14, 41] if ctx.quick else ALL_SHAPES4
    r = acc_tlc(ctx, "sorts", [grp], shapes, kinds=("owned", "plain", "plainv", "slice_m"), depth=1,
                bigs=(BIG_MAX, BIG_WRAP), workers=8 if ctx.quick else 12)
    combos = [("dev", "u32"), ("release", "elem"), ("release", "b3"), ("release", "w80"), ("dev", "a128"), ("release", "w24"), ("release", "elem8")]      # w80: an 80-byte element
    if not ctx.quick:
        combos += [("dev", "elem"), ("release", "u32"), ("dev", "b3"), ("dev", "w80")]
    acc_replays(ctx, r, combos, "sorts")
    # long key lines: recorded from the real crate by the random driver, judged by TLC (SortTrace.tla)
    want = "row" if by == "row" else "col"
    acc_random(ctx, ["sort"], 3000 if ctx.quick else 40000, 14, profile="dev")
    acc_random(ctx, ["sort"], 1500 if ctx.quick else 20000, 14, profile="release", elem="b3", label="big-b3")
    acc_random(ctx, ["sort"], 800 if ctx.quick else 10000, 14, profile="release", elem="w1k", label="kib-elem")
    afail_stage(ctx, ("sort_by_row", "sort_by_row_key", "sort_row_ord") if by == "row" else ("sort_by_col", "sort_by_col_key", "sort_col_ord"))
    n = 500 if ctx.quick else 5000
    for prof in ("dev", "release"):
        ctx.drive_and_validate("bigsorts", ["sort", ctx.seed + (0 if prof == "dev" else 7919), n, "{out}"], "SortTrace", attr_sort_event,
                               profile=prof, invariants=("StableDefsAgree",), filter_event=lambda e: e.get("by") == want)


def attr_sort_event(case, ev):
    props = {"C16"} if ev.get("by") == "row" else {"C17"}
    if not ev.get("outside_ok", True):
        props.add("C04")
    return props, {"family": "sorttrace", "by": ev.get("by"), "stable": ev.get("stable"), "form": ev.get("form"), "kind": "trace_rejected"}


def p_C16(ctx):
    ctx.rule = ("all six sort-by-row variants (stable/unstable x closure/key/Ord) on every receiver (owned, third-party, every "
                "mutable window) with every key row over a three-letter alphabet (all tie patterns) and every row index in and out of "
                "range; stable variants must produce THE stable result, unstable ones any sorting permutation of whole columns; "
                "distinct by (root kind, shape, stack, variant, line, key pattern)")
    sort_pipeline(ctx, "row")


def p_C17(ctx):
    ctx.rule = ("all five sort-by-column variants on every receiver with every key column over a three-letter alphabet and every "
                "column index in and out of range; stable variants must produce THE stable result, unstable ones any sorting "
                "permutation of whole rows; distinct by (root kind, shape, stack, variant, line, key pattern)")
    sort_pipeline(ctx, "col")



# --------------------------------------------------------------------------------------
# iterator family (SeqIter.tla / IterMC.tla)
# --------------------------------------------------------------------------------------
ITER_KIND_PROP = {"rows": "C08", "rows_mut": "C08", "col": "C09", "col_mut": "C09",
                  "cells": "C10", "cells_mut": "C10", "into_ref": "C10", "into_mut": "C10"}
ITER_INVS = ["RangeInv", "YieldInv", "DoneInv"]


def attr_iter(case, fail):
    kind = fail["kind"]
    t = case["kind"]["t"]
    calls = case["calls"]
    step = fail.get("step", -1)
    op = calls[step]["op"] if 0 <= step < len(calls) else "end"
    if kind.startswith("ledger"):
        props = {"C05"}
    else:
        props = {ITER_KIND_PROP[t]}
        if kind == "frame" or (kind == "write_through" and len(case["stack"]) > 0):
            props.add("C04")
        # a mutable iterator over a mutable view that yields the wrong cells hands out references the view does not
        # cover (or withholds ones it does): C04's "inside the rectangle ... exactly the effect on an owned array"
        d0 = fail.get("detail", {}) if isinstance(fail.get("detail"), dict) else {}
        yielded = any(isinstance(d0.get(w), dict) and d0[w].get("k") in ("ids", "some", "fold") for w in ("expected", "observed"))
        if t in ("rows_mut", "col_mut", "cells_mut", "into_mut") and len(case["stack"]) > 0 and kind == "res" and yielded:
            props.add("C04")
    d = fail.get("detail", {}) if isinstance(fail.get("detail"), dict) else {}
    sig = {"family": "iter", "iter": t, "op": op, "kind": kind,
           "expected": (d.get("expected") or {}).get("k") if isinstance(d.get("expected"), dict) else None,
           "observed": (d.get("observed") or {}).get("k") if isinstance(d.get("observed"), dict) else None}
    return props, sig


def iter_key(case):
    return [case["root"]["kind"], case["root"]["nc"], case["root"]["nr"], case["stack"], case["kind"],
            [(c["op"], c["a"]) for c in case["calls"]]]


def iter_tlc(ctx, name, kinds, shapes, rkinds=("owned", "slice_m"), depth=1, bigs=(BIG_MAX, BIG_WRAP), seqmode=False, maxcalls=3,
             walk=None, workers=8):
    consts = {"Shapes": set(shapes), "RootKinds": set(rkinds), "Depth": depth, "Kinds": set(kinds), "BigArgs": set(bigs),
              "SeqMode": seqmode, "MaxCalls": maxcalls, "Walk": walk is not None}
    if walk is None:
        cfg = cfg_text(constants=consts, view="View", invariants=ITER_INVS)
        return ctx.tlc_run(name, "IterMC", cfg, workers=workers, xmx="8g")
    cfg = cfg_text(constants=consts, invariants=ITER_INVS + ["WalkEmit"])
    return ctx.tlc_run(name, "IterMC", cfg, workers=1, simulate="num=%d" % walk, seed=ctx.seed, depth=maxcalls + 4)


def iter_pipeline(ctx, kinds, what):
    ctx.rule = ("%s: (a) every call {next, next_back, nth(n), nth_back(n), len/size_hint, count, last, fold, rfold, [i], num_cols} with "
                "n in 0..len+1 plus huge/wrap-adversarial values from every reachable (front, back) position of the iterator over every "
                "receiver (owned / slice-built / every window; stride > width, width 1, height 1, empty); (b) every call SEQUENCE up to a "
                "depth bound from a fresh iterator; (c) random walks; after each sequence the remaining items are drained and compared and "
                "for Mut variants every yielded reference is written through and the whole root compared. distinct by (receiver, kind, call sequence)") % what
    ctx.assumptions = ACC_ASSUME
    q = ctx.quick
    shapes = ([0, 11, 13, 31, 23, 32] if "cells" in kinds else [0, 11, 13, 31, 23, 32, 33]) if q else ALL_SHAPES4
    r = iter_tlc(ctx, "edges", kinds, shapes, rkinds=("owned", "slice_v", "slice_m"), depth=1,
                 bigs=(BIG_MAX, BIG_WRAP) if q else (BIG_MAX, BIG_HALF1, BIG_P32, BIG_WRAP), workers=8 if q else 12)
    ctx.count_nontrivial(r.cases_path, iter_key)
    ctx.sample_from(r.cases_path)
    combos = [("dev", "u32"), ("release", "elem"), ("release", "zst")] + ([] if q else [("release", "u32"), ("dev", "elem"), ("dev", "zst")])
    for prof, elem in combos:
        ctx.replay(r.cases_path, attr_iter, profile=prof, elem=elem, label="edges")
    # every call PAIR on five shapes; (thorough) every call TRIPLE on the smallest shape that has an interior (the number of
    # sequences grows by a factor of about twenty per call since the provided methods joined the operation list)
    seqs = [("sequences", [23, 32] if q else [13, 31, 23, 32, 33], 2)] + ([] if q else [("sequences3", [22], 3)])
    for sname, sshapes, depth_calls in seqs:
        sq = iter_tlc(ctx, sname, kinds, sshapes, rkinds=("owned",), depth=1, bigs=(BIG_MAX,), seqmode=True, maxcalls=depth_calls,
                      workers=8 if q else 12)
        ctx.count_nontrivial(sq.cases_path, iter_key)
        ctx.sample_from(sq.cases_path, 2)
        for prof, elem in ([("dev", "u32")] if q else [("dev", "u32"), ("release", "u32")]):
            ctx.replay(sq.cases_path, attr_iter, profile=prof, elem=elem, label=sname)
    w = iter_tlc(ctx, "walks", kinds, [23, 32, 33, 34, 43], rkinds=("owned", "slice_m"), depth=1, bigs=(BIG_MAX,), maxcalls=6,
                 walk=300 if q else 5000)
    ctx.count_nontrivial(w.cases_path, iter_key)
    for prof, elem in [("dev", "u32"), ("release", "elem")]:
        ctx.replay(w.cases_path, attr_iter, profile=prof, elem=elem, label="walks")
    # Layer B: the cursors as implemented refine the ideal sequence; every concrete cursor state is replayed
    cursors_check(ctx, [k for k in kinds if not k.startswith("into_")], attr_iter)
    # code -> spec: random call sequences on LONG rows / columns (size-gated paths), judged by TLC (IterTrace.tla)
    def attr_iter_event(case, ev):
        if case is None:
            return set(), {"family": "iter-trace", "kind": "trace_rejected"}
        return attr_iter(case, {"step": len(case["calls"]), "kind": "remaining", "detail": {}})
    for prof, elem, nn in [("dev", "u32", 1500 if q else 20000), ("release", "elem", 700 if q else 10000)]:
        ctx.random_cases_validate("long-" + prof, lambda path, prof=prof, nn=nn: gen.iter_cases(ctx.seed + (5 if prof == "dev" else 55), nn, 9, kinds, path),
                                  "IterTrace", attr_iter, attr_iter_event, profile=prof, elem=elem, invariants=("TypeOK",))


def p_C08(ctx):
    iter_pipeline(ctx, ["rows", "rows_mut"], "rows() and rows_mut()")
    giant_check(ctx, lambda c: c["t"] == "iter" and c["kind"] == "rows")


def p_C09(ctx):
    iter_pipeline(ctx, ["col", "col_mut"], "col(c) and col_mut(c) for every column c")
    giant_check(ctx, lambda c: (c["t"] == "iter" and c["kind"] == "col") or (c["t"] == "acc" and c["op"] == "col_idx"))


def p_C10(ctx):
    iter_pipeline(ctx, ["cells", "cells_mut", "into_ref", "into_mut"], "cells(), cells_mut() and the IntoIterator forms on references")
    giant_check(ctx, lambda c: c["t"] == "iter" and c["kind"] == "cells")



# --------------------------------------------------------------------------------------
# serde family (Serde.tla / SerdeMC.tla)
# --------------------------------------------------------------------------------------
SERDE_INVS = ["AcceptOnlyConsistent", "VisitorInv", "RoundTripInv"]
SERDE_ASSUME = ["serde and serde_json (textual encoding, number parsing, key delivery)", "TLC and the CommunityModules Json module",
                "the harness renderer from abstract documents to JSON text / value trees"]


def attr_serde(case, fail):
    kind = fail["kind"]
    stratum = case.get("stratum") or ""
    if kind.startswith("fault."):
        props = {"C11"} | ({"C05"} if kind.endswith("double_drop") else set())      # a destructor panicked inside deserialize_in_place
    elif kind.startswith("rt."):
        props = {"C18"}
    elif kind in ("abort", "hang"):
        # the process died: a round-trip case exercises serialisation + deserialisation, a document case only the latter
        props = {"C18", "C19"} if stratum.startswith("roundtrip") else {"C19"}
    else:
        props = {"C19"}
    d = fail.get("detail", {})
    sig = {"family": "serde", "kind": kind, "stratum": case.get("stratum"), "transport": d.get("transport") or d.get("path")}
    return props, sig


def serde_tlc(ctx, name, strata, maxlen):
    # (shapes are encoded 1000*nc + nr; the two with ~263 k cells cross serde's 1 MiB pre-allocation cap for u32)
    extra = {1040, 40001, 7009, 64002, 5005, 877300, 300877} if ctx.quick else {1040, 40001, 7009, 64002, 5005, 1300, 300001, 33033, 17002, 2017, 128003, 877300, 300877, 999999}
    cfg = cfg_text(constants={"Strata": set(strata), "MaxLen": maxlen, "RtMax": 3 if ctx.quick else 5, "RtExtra": extra}, invariants=SERDE_INVS)
    return ctx.tlc_run(name, "SerdeMC", cfg, workers=8)


def p_C18(ctx):
    ctx.rule = ("every grid shape (0,0), 1xN, Nx1 .. 3x3 serialised from an owned array (element types u32, i64, String with quotes / "
                "backslashes / control characters / non-BMP characters, Option<u8>, Vec<u8>) through to_string / to_vec / to_writer / "
                "to_value and read back through from_str / from_slice / from_reader / from_value (every pair), and every window of every "
                "size at 9 offsets of a parent serialised from TooDeeView and TooDeeViewMut; TLC checks RoundTrip on the document model; "
                "distinct by (shape, owned/view)")
    ctx.assumptions = SERDE_ASSUME
    r = serde_tlc(ctx, "roundtrip", ["roundtrip"], 0)
    ctx.count_nontrivial(r.cases_path, lambda c: [c["stratum"], c["doc"]])
    ctx.sample_from(r.cases_path)
    ctx.replay(r.cases_path, attr_serde, profile="dev", label="roundtrip")
    ctx.replay(r.cases_path, attr_serde, profile="release", label="roundtrip")
    ctx.notes.append("each case is expanded by the harness into 5 element types x 3 serialisers x 3 text deserialisers + 2 value-tree paths "
                     "(owned) or 9 window offsets x 6 paths (views)")


def p_C19(ctx):
    ctx.rule = ("documents generated from the grammar of Serde.tla: (structure) every sequence of up to 4 (quick) / 5 (thorough) fields "
                "over {num_cols, num_rows, data, unknown} - every subset, order, duplication, duplicates with equal and different values; "
                "(values) every field order x dimension tokens {0..3, 2^32, 2^63, 2^64-1, 2^64, -1, 1.5, string, null}^2 x data "
                "{length product-1, product, product+1, ill-typed element first/last, non-array}; (tops) non-object documents; (positional) "
                "every top-level sequence of up to 4 / 5 items over dimension and data tokens - never a panic, consistent if accepted; each "
                "rendered plainly and with escaped keys and fed to from_str / from_slice / from_reader / from_value; distinct by document")
    ctx.assumptions = SERDE_ASSUME
    r = serde_tlc(ctx, "documents", ["structure", "values", "tops", "positional", "roundtrip"], 4 if ctx.quick else 5)
    ctx.count_nontrivial(r.cases_path, lambda c: c["doc"])
    ctx.sample_from(r.cases_path)
    ctx.replay(r.cases_path, attr_serde, profile="dev", label="documents")
    ctx.replay(r.cases_path, attr_serde, profile="release", label="documents")



# --------------------------------------------------------------------------------------
# constructor family (Ctor.tla / CtorMC.tla)
# --------------------------------------------------------------------------------------
def attr_ctor(case, fail):
    kind = fail["kind"]
    props = {"C05"} if kind.startswith("ledger") else {"C20"}
    d = fail.get("detail", {})
    sig = {"family": "ctor", "kind": kind, "ctor": case.get("c"), "t": case.get("t"),
           "expected": (d.get("expected") or {}).get("k") if isinstance(d.get("expected"), dict) else None,
           "observed": (d.get("observed") or {}).get("k") if isinstance(d.get("observed"), dict) else None}
    return props, sig


C20_HIST_OPS = CTOR_OPS | {"clone", "clone_from", "into_vec", "into_box", "into_iter", "from_view"}


def p_C20(ctx):
    ctx.rule = ("(a) every construction request: constructor in {new, init, from_vec, from_box, TooDeeView::new, TooDeeViewMut::new} x "
                "dimensions over {0..N, usize::MAX, MAX/2, 2^63, 2^32}^2 x buffer lengths {0, product-1, product, product+1, product+2}, with "
                "huge dimensions instantiated by several concrete values including pairs whose wrapped product equals the buffer length; "
                "(b) ==, !=, Hash and clone over all pairs of arrays with up to E cells over two values (equal data / different dimensions "
                "included); (c) history-machine transitions for clone, into Vec / Box / by-value iterator (consumed from both ends), "
                "From<view>; distinct by request / pair / history")
    ctx.assumptions = HIST_ASSUME
    q = ctx.quick
    cfg = cfg_text(constants={"MaxDim": 3 if q else 4, "BigDims": {BIG_MAX, BIG_HALF, BIG_HALF1, BIG_P32}, "EqCells": 3 if q else 4, "W": 4},
                   invariants=["AcceptedShapeOK", "GuardInv", "EqInv"])
    r = ctx.tlc_run("ctor", "CtorMC", cfg, workers=8)
    ctx.count_nontrivial(r.cases_path, lambda c: c)
    ctx.sample_from(r.cases_path)
    for prof, elem in [("dev", "u32"), ("release", "u32"), ("dev", "elem"), ("release", "elem"), ("dev", "zst"), ("release", "w4k"), ("release", "w24")]:
        ctx.replay(r.cases_path, attr_ctor, profile=prof, elem=elem, label="ctor")
    m = 3 if q else 4
    h = hist_tlc_edges(ctx, "conversions", m, m, ops=C20_HIST_OPS | DRAIN_OPS, workers=4)
    sel = os.path.join(ctx.outdir, "conv.cases.ndjson")
    core.filter_cases(h.cases_path, sel, lambda c: c["steps"][-1]["op"] in C20_HIST_OPS or
                      (c["steps"][-1]["op"] in DRAIN_OPS and hist_drain_kind(c, len(c["steps"]) - 1) == "into_iter"))
    ctx.count_nontrivial(sel, hist_key)
    ctx.sample_from(sel, 2)
    # tok: Clone but not Copy and without drop glue - conversions must CLONE (fresh identity), a bitwise copy is a second owner
    for prof, elem, cap in [("dev", "elem", 0), ("release", "u32", 1), ("dev", "zst", 2), ("release", "elem", 2), ("release", "tok", 0), ("release", "w4k", 0), ("release", "elem40", 1)]:
        ctx.replay(sel, attr_hist, profile=prof, elem=elem, cap=cap, label="conversions")



# --------------------------------------------------------------------------------------
# faults and leaks (C11, C12): TLC enumerates the fault points, the real outcome is judged by TooDeeTrace.tla
# --------------------------------------------------------------------------------------
def fault_kind_of_case(case):
    for st in case["steps"]:
        f = st.get("fault")
        if f:
            return f["kind"], st["op"]
    return None, None


def attr_fault_replay(case, fail):
    fk, fop = fault_kind_of_case(case)
    if fk is None:
        return attr_hist(case, fail)
    step = fail.get("step", -1)
    nsteps = len(case["steps"])
    if 0 <= step < nsteps - 1:
        return attr_hist(case, fail)      # a divergence before the fault belongs to the ordinary property
    props = {"C12"} if fk == "forget" else {"C11"}
    if fail["kind"].startswith("ledger"):
        props.add("C05")                  # dropped twice / dropped while reachable: unconditional in C05
    return props, {"family": "fault", "op": fop, "kind": fail["kind"], "fault": fk}


def ledger_evidence(ev):
    """The rejected event itself shows an element dropped twice (dd), one element owned by two cells (dup: it will be
    dropped twice) or a dropped element still reachable through the array (dead): C05 forbids these in every history."""
    post = ev.get("post") if isinstance(ev.get("post"), dict) else {}
    return (ev.get("dd", 0) or 0) > 0 or (post.get("dup", 0) or 0) > 0 or (post.get("dead", 0) or 0) > 0


def attr_fault_event(case, ev):
    fk, fop = (None, None) if case is None else fault_kind_of_case(case)
    f = ev.get("fault", {})
    if fk is None:
        # an ordinary history: use the op's own property
        fake = {"step": -1, "kind": "proj", "detail": {}}
        op = ev.get("ev")
        props = set(HIST_OP_PROPS.get(op, set())) | {"C01", "C05"}
        return props, {"family": "trace", "op": op, "kind": "trace_rejected"}
    props = {"C12"} if fk == "forget" else {"C11"}
    if ledger_evidence(ev):
        props.add("C05")
    site = None
    for st in case["steps"]:
        if st.get("fault"):
            site = st["fault"].get("site") if st["fault"]["kind"] == "panic_at" else st["fault"].get("lie")
    sig = {"family": "fault", "op": fop, "kind": "trace_rejected", "fault": fk, "site": site, "at_event": ev.get("ev")}
    return props, sig


def fault_key(case):
    st = case["steps"][-1]
    pre = case["steps"][-2]["x"] if len(case["steps"]) > 1 else {"nc": 0, "nr": 0}
    return [st["op"], st["a"], st.get("fault"), pre.get("nc"), pre.get("nr"), [s["op"] for s in case["steps"][:-1]][-4:]]


def afail_overlay(src, dst, ops, ks=(0, 1), limit=None, seed=0):
    """Memory exhaustion overlay on TLC-emitted cases: in each case the last step whose call is in `ops` is marked
    "afail": k - the k-th allocation request made during that call is refused.  The specification gives the event no
    effect (TooDee.tla, "Environment"): the process may end there, otherwise every expectation of the case stands."""
    out = []
    with open(src) as fi:
        for line in fi:
            c = json.loads(line)
            idxs = [i for i, st in enumerate(c["steps"]) if st["op"] in ops and "fault" not in st]
            if not idxs:
                continue
            for k in ks:
                c2 = json.loads(line)
                c2["steps"][idxs[-1]]["afail"] = k
                out.append(c2)
    if limit is not None and len(out) > limit:
        random.Random(seed).shuffle(out)
        out = out[:limit]
    with open(dst, "w") as fo:
        for c in out:
            fo.write(json.dumps(c) + "\n")
    return len(out)


def afail_stage(ctx, ops, m=3):
    """Memory exhaustion overlay for the calls of one property: every TLC edge of the history machine whose last call is in
    `ops`, with the k-th allocation request of that call refused (k = 0, 1).  The process may end there; if it does not, the
    call must mean what it always means (a fallback path taken only when memory is short is still the same operation)."""
    r = hist_tlc_edges(ctx, "oom-edges", m, m, ops=tuple(ops))
    ov = os.path.join(ctx.outdir, "oom.cases.ndjson")
    n_ov = afail_overlay(r.cases_path, ov, set(ops), ks=(0, 1), limit=500 if ctx.quick else 8000, seed=ctx.seed)
    core.REPLAY_STATS["oom_aborts"] = 0
    ctx.replay(ov, attr_hist, profile="release", elem="elem", cap=0, label="oom")
    ctx.notes.append("memory exhaustion overlay: %d cases, %d ended the process at the refused allocation (permitted)"
                     % (n_ov, core.REPLAY_STATS.get("oom_aborts", 0)))


def p_C11(ctx):
    ctx.rule = ("for every operation that runs caller code and every reachable shape/index: the k-th call into the supplied iterator's "
                "next/next_back/len panics (k = 0..n), the iterator lies about its length (one short, one long, usize::MAX), the k-th Clone / "
                "Default / Drop / comparator call panics; the panic is caught, the array is observed, then used further (push_row, remove_col + "
                "drain, fill, clone, drop). The recorded events are validated by TLC against TooDeeTrace.tla: the post-fault state must satisfy "
                "PostFaultOK (shape invariant, every cell live and from before-or-supplied, no duplicates) and everything after it must follow "
                "the history machine from that state, with no element dropped twice. distinct by (op, args, fault point, shape, prefix tail)")
    ctx.assumptions = HIST_ASSUME + ["std's unwinding semantics for panics inside element destructors"]
    rawmem_check(ctx)      # Layer B: the raw-memory algorithms satisfy the memory-level invariants at every crash point
    m = 3 if ctx.quick else 4
    r = hist_tlc_edges(ctx, "faults", m, m, ops=("none",), faults=("iter", "clone", "default", "drop", "closure", "cmp"), workers=4)
    ctx.count_nontrivial(r.cases_path, fault_key)
    ctx.sample_from(r.cases_path)
    # "tok": move-only elements without drop glue (needs_drop::<T>() is false): never dropped twice, yet duplicable
    combos = [("dev", "elem", 0), ("release", "elem", 1), ("release", "tok", 0)] + ([] if ctx.quick else [("dev", "elem", 2), ("dev", "zst", 0), ("release", "u32", 0), ("dev", "tok", 1)])
    for prof, elem, cap in combos:
        ctx.replay_and_validate(r.cases_path, attr_fault_replay, attr_fault_event, profile=prof, elem=elem, cap=cap, label="faults")
    # serde's Deserialize::deserialize_in_place on arrays of resource-owning elements: a destructor of an old element panics
    rs = serde_tlc(ctx, "serde-roundtrip", ["roundtrip"], 0)
    ctx.replay(rs.cases_path, attr_serde, profile="dev", label="in-place-drop-faults")
    # code -> spec: random long histories (incl. LARGE arrays) with faults / leaks injected at random calls; everything after a
    # fault is validated from the state the real crate was left in ("then or later")
    def attr_fault_drive_event(case, ev):
        f = ev.get("fault", {})
        return ({"C11"} if f.get("kind") in ("panic_at", "lie") else {"C11", "C12"}) | ({"C05"} if ledger_evidence(ev) else set()), {"family": "fault-drive", "op": ev.get("ev"), "kind": "trace_rejected", "fault": f.get("kind")}
    nh, steps = (250, 40) if ctx.quick else (3000, 80)
    # w4k: one page per element - a few dozen cells already exceed byte-size thresholds of "large array" paths, and the
    # element itself exceeds element-size thresholds
    # elem4k: page-sized DROP-TRACKING elements - two thousand cells are 8 MiB (large histories open with a faulty insert)
    for prof, seed_off, el in (("dev", 21, "elem"), ("release", 22, "tok"), ("release", 23, "w4k"), ("release", 24, "elem4k")):
        ctx.drive_and_validate("drive-faults-" + el, ["hist", ctx.seed + seed_off, nh, steps, 6, "{out}", el, "faults"], "TooDeeTrace",
                               attr_fault_drive_event, profile=prof, invariants=("ShapeOK", "HandleOK"))


def p_C12(ctx):
    ctx.rule = ("every drain (remove_row / pop_row / remove_col / pop_col at every index of every shape) and the by-value iterator leaked with "
                "mem::forget after taking 0..n items from either end in every order, and every destructor-less borrow (rows, rows_mut, col, "
                "col_mut, cells, cells_mut, view, view_mut) leaked after 0..2 items; the array is observed and used further; the recorded "
                "events are validated by TLC against TooDeeTrace.tla (PostFaultOK: shape invariant, cells from before, no duplicates, nothing "
                "dropped twice then or later). distinct by (shape, removed index, consumption stage)")
    ctx.assumptions = HIST_ASSUME
    rawmem_check(ctx)      # Layer B: the raw-memory algorithms satisfy the memory-level invariants at every crash point
    m = 3 if ctx.quick else 4
    r = hist_tlc_edges(ctx, "leaks", m, m, ops=("leak_borrow",), faults=("forget",), workers=4)
    ctx.count_nontrivial(r.cases_path, fault_key)
    ctx.sample_from(r.cases_path)
    combos = [("dev", "elem", 0), ("release", "elem", 1), ("dev", "zst", 0), ("release", "tok", 0), ("release", "w4k", 1)] + ([] if ctx.quick else [("dev", "u32", 2), ("release", "zst", 1), ("dev", "tok", 2)])
    for prof, elem, cap in combos:
        ctx.replay_and_validate(r.cases_path, attr_fault_replay, attr_fault_event, profile=prof, elem=elem, cap=cap, label="leaks")
    # environment overlay: memory exhaustion during the call that creates the drain (a fallback path taken only then
    # must be as leak-safe as the main one); the process ending there is the permitted alternative
    ov = os.path.join(ctx.outdir, "leaks-oom.cases.ndjson")
    n_ov = afail_overlay(r.cases_path, ov, REMOVE_OPS | {"into_iter"}, ks=(0, 1), limit=400 if ctx.quick else 6000, seed=ctx.seed)
    core.REPLAY_STATS["oom_aborts"] = 0
    ctx.replay_and_validate(ov, attr_fault_replay, attr_fault_event, profile="release", elem="elem", cap=0, label="leaks-oom")
    ctx.notes.append("memory exhaustion overlay: %d cases, %d ended the process at the refused allocation (permitted)"
                     % (n_ov, core.REPLAY_STATS.get("oom_aborts", 0)))
    # code -> spec: random long histories (incl. LARGE arrays) with faults / leaks injected at random calls; everything after a
    # fault is validated from the state the real crate was left in ("then or later")
    def attr_fault_drive_event(case, ev):
        f = ev.get("fault", {})
        return ({"C12"} if f.get("kind") == "forget" else {"C11", "C12"}) | ({"C05"} if ledger_evidence(ev) else set()), {"family": "fault-drive", "op": ev.get("ev"), "kind": "trace_rejected", "fault": f.get("kind")}
    nh, steps = (250, 40) if ctx.quick else (3000, 80)
    # w4k: one page per element - a few dozen cells already exceed byte-size thresholds of "large array" paths, and the
    # element itself exceeds element-size thresholds
    # elem4k: page-sized DROP-TRACKING elements - two thousand cells are 8 MiB (large histories open with a faulty insert)
    for prof, seed_off, el in (("dev", 21, "elem"), ("release", 22, "tok"), ("release", 23, "w4k"), ("release", 24, "elem4k")):
        ctx.drive_and_validate("drive-faults-" + el, ["hist", ctx.seed + seed_off, nh, steps, 6, "{out}", el, "faults"], "TooDeeTrace",
                               attr_fault_drive_event, profile=prof, invariants=("ShapeOK", "HandleOK"))



# --------------------------------------------------------------------------------------
# Layer B models (implementation-shaped; refinement-checked by TLC, cursor states also drive replay coverage)
# --------------------------------------------------------------------------------------
RAWMEM_INVS = ["M_InBounds", "M_NoDoubleDrop", "M_Shape", "M_Owned", "M_Provenance", "M_Refines", "M_RejectUnchanged",
               "M_DrainLine", "M_DrainRow", "M_ExactlyOnce"]


def rawmem_check(ctx):
    """RawMem.tla: insert_row / insert_col / remove_col + DrainCol / remove_row + Vec::drain over explicit memory, every
    crash point, lie, leak stage; memory-level invariants at every step and refinement of Grid.tla on completion."""
    m = 3 if ctx.quick else 4
    cfg = cfg_text(constants={"MaxC": m, "MaxR": m, "Slacks": {0, 2}, "DebugBuilds": "@{TRUE, FALSE}"}, invariants=RAWMEM_INVS)
    return ctx.tlc_run("rawmem", "RawMem", cfg, workers=8 if ctx.quick else 12, coverage=True, xmx="8g")


def cursors_check(ctx, kinds, attribute):
    """CursorsMC.tla: Layer B cursors (slice arithmetic in W-bit words, FlattenExact case analysis) refine SeqIter for every
    reachable concrete state and every argument; every transition with a small argument is replayed against the real crate."""
    q = ctx.quick
    cfg = cfg_text(constants={"W": 5 if q else 6, "MaxC": 3 if q else 4, "MaxR": 3 if q else 4, "MaxSkip": 2, "CKinds": set(kinds),
                              "EmitMaxN": 10 if q else 18, "Emit": True},
                   view="View", invariants=["B_SameResult", "B_SameRemaining", "B_SameLen", "B_Rep", "B_InBounds"])
    r = ctx.tlc_run("cursors", "CursorsMC", cfg, workers=8 if q else 12, xmx="8g")
    ctx.count_nontrivial(r.cases_path, iter_key)
    ctx.sample_from(r.cases_path, 1)
    for prof, elem in [("dev", "u32"), ("release", "elem")]:
        ctx.replay(r.cases_path, attribute, profile=prof, elem=elem, label="cursor-states")
    return r



def algos_check(ctx, which):
    """Algos.tla: translate cycle-leader walk, build_swap_trace, copy_within row loop refine the Grid.tla operators."""
    q = ctx.quick
    cfg = cfg_text(constants={"TMax": 6 if q else 9, "PMax": 5 if q else 7, "CMax": 4 if q else 5, "Which": set(which)},
                   invariants=["TranslateRefines", "SwapTraceRefines", "CopyWithinRefines"])
    return ctx.tlc_run("algos", "AlgosMC", cfg, workers=8 if q else 12, xmx="8g")



# --------------------------------------------------------------------------------------
# giant family (Giant.tla / GiantMC.tla): zero-sized-element arrays with one dimension of h*U + l cells
# --------------------------------------------------------------------------------------
def attr_giant(case, fail):
    t = case.get("t")
    if t == "iter":
        props = {{"rows": "C08", "col": "C09", "cells": "C10"}[case["kind"]]}
    elif t == "view":
        props = {"C03"}
    else:
        props = {"C02"} | ({"C09"} if case.get("op") == "col_idx" else set())
    return props, {"family": "giant", "t": t, "kind": fail["kind"], "op": case.get("op") or case.get("kind")}


def giant_check(ctx, keep):
    """keep(case) selects the cases relevant to the running property"""
    cfg = cfg_text(constants={"MaxCalls": 2 if ctx.quick else 3, "Parts": {"iter", "acc"}}, invariants=["RangeInv"])
    r = ctx.tlc_run("giant", "GiantMC", cfg, workers=8 if ctx.quick else 12, xmx="8g")
    sel = os.path.join(ctx.outdir, "giant.sel.ndjson")
    core.filter_cases(r.cases_path, sel, keep)
    ctx.count_nontrivial(sel, lambda c: c)
    ctx.sample_from(sel, 1)
    for prof in ("dev", "release"):
        ctx.replay(sel, attr_giant, profile=prof, label="giant")



def addr_check(ctx):
    """Addr.tla: the offset / range arithmetic of the accessors, col() and view() in W-bit words, with overflow checks on
    and off, equals the Layer A cell / window for every argument value, and every unchecked slice access is in bounds."""
    for oc in (True, False):
        cfg = cfg_text(constants={"W": 6 if ctx.quick else 7, "OC": oc, "MaxDim": 4 if ctx.quick else 5, "MaxSkip": 2}, invariants=["Refines"])
        ctx.tlc_run("addr-oc%s" % ("on" if oc else "off"), "AddrMC", cfg, workers=8 if ctx.quick else 12, xmx="8g")



PIPELINES = {
    "C01": p_C01,
    "C05": p_C05,
    "C06": p_C06,
    "C07": p_C07,
    "C08": p_C08, "C09": p_C09, "C10": p_C10,
    "C18": p_C18, "C19": p_C19,
    "C20": p_C20,
    "C11": p_C11, "C12": p_C12,
    "C02": p_C02, "C03": p_C03, "C04": p_C04, "C13": p_C13, "C14": p_C14, "C15": p_C15, "C16": p_C16, "C17": p_C17,
}


TRACE_INVS = {"TooDeeTrace": ("ShapeOK", "HandleOK"), "SortTrace": ("StableDefsAgree",)}


def rerun(prop, path):
    """Re-execute what a replay file describes: a TLC-emitted case, a random case judged by a trace specification, or a
    seed-determined driver run."""
    import subprocess
    path = os.path.abspath(path)
    with open(path) as f:
        rec = json.load(f)
    module = rec.get("trace_module", "TooDeeTrace")
    invs = TRACE_INVS.get(module, ("TypeOK",))
    if rec.get("driver_mode") and rec.get("driver"):
        cmd = rec["driver"].split()
        logp = path + ".rerun.events.ndjson"
        cmd = [c if not c.endswith(".events.ndjson") else logp for c in cmd]
        cmd[0] = core.binpath("drive", rec.get("profile", "dev"))      # always the binary built from the CURRENT tree
        try:
            r = subprocess.run(cmd, stdout=subprocess.PIPE, stderr=subprocess.PIPE, text=True, timeout=3600)
        except subprocess.TimeoutExpired:
            r = subprocess.CompletedProcess(cmd, "hang", "", "")
        if r.returncode != 0:
            print("the driver process died or hung again (rc=%s)" % r.returncode)
            print("VIOLATION property=%s replay=%s" % (prop, path))
            return 1
        ok, rejected, _ = core.validate_trace(os.path.dirname(path), "rerun", module, logp, invariants=invs)
        if rejected:
            print(json.dumps([r.get("event") for r in rejected][:3], indent=1)[:3000])
            print("VIOLATION property=%s replay=%s" % (prop, path))
            return 1
        print("the driver's trace is accepted on the current tree")
        return 0
    if rec.get("case") is None:
        print("this replay file holds no re-executable case (see its 'source' field)")
        return 2
    tmp = path + ".case.ndjson"
    with open(tmp, "w") as f:
        f.write(json.dumps(rec["case"]) + "\n")
    n, fails = core.replay(tmp, profile=rec.get("profile", "dev"), elem=rec.get("elem", "elem"), cap=rec.get("cap", 0),
                           extra_args=[a for a in rec.get("extra_args", ()) if a != "--log" and not str(a).endswith(".ndjson")])
    if rec.get("trace") and not fails:
        logp = tmp + ".events"
        if os.path.exists(logp):
            os.unlink(logp)
        core.replay(tmp, profile=rec.get("profile", "dev"), elem=rec.get("elem", "elem"), cap=rec.get("cap", 0), extra_args=("--log", logp))
        ok, rejected, _ = core.validate_trace(os.path.dirname(path), "rerun", module, logp, invariants=invs)
        fails = [r["event"] for r in rejected]
    os.unlink(tmp)
    if fails:
        print(json.dumps(fails, indent=1)[:4000])
        print("VIOLATION property=%s replay=%s" % (prop, path))
        return 1
    print("case conforms on the current tree")
    return 0
