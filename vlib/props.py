"""Per-property pipelines.  Each takes a driver.Ctx and fills it."""
import json, os
import core
from core import cfg_text

# --------------------------------------------------------------------------------------
# history machine (TooDee.tla / TooDeeMC.tla)
# --------------------------------------------------------------------------------------
CTOR_OPS = {"default", "with_capacity", "new", "init", "from_vec", "from_box"}
INSERT_OPS = {"insert_row", "push_row", "insert_col", "push_col"}
REMOVE_OPS = {"remove_row", "pop_row", "remove_col", "pop_col"}
DRAIN_OPS = {"d_next", "d_next_back", "d_len", "d_drop"}

HIST_OP_PROPS = {
    "clear": set(), "swap_dimensions": set(), "reserve": set(), "reserve_exact": set(), "shrink_to_fit": set(),
    "fill": {"C13"}, "swap": {"C13"}, "swap_rows": {"C13"}, "swap_cols": {"C13"}, "set": {"C02"},
    "translate": {"C15"}, "flip_rows": {"C15"}, "flip_cols": {"C15"},
    "sort_by_row": {"C16"}, "sort_by_col": {"C17"},
    "clone": {"C20"}, "into_vec": {"C20"}, "into_box": {"C20"}, "into_iter": {"C20"}, "from_view": {"C03", "C20"},
    "drop": {"C05"}, "end": {"C05"},
}
for _o in CTOR_OPS:
    HIST_OP_PROPS[_o] = {"C20"}
for _o in INSERT_OPS:
    HIST_OP_PROPS[_o] = {"C06"}
for _o in REMOVE_OPS:
    HIST_OP_PROPS[_o] = {"C07"}


def hist_op_at(case, step):
    steps = case["steps"]
    if step is None or step < 0 or step >= len(steps):
        return "end"
    return steps[step]["op"]


def hist_drain_kind(case, step):
    """Is the outstanding handle at `step` a drain (C07) or the by-value iterator (C20)?"""
    for s in reversed(case["steps"][:step]):
        if s["op"] in REMOVE_OPS:
            return "drain"
        if s["op"] == "into_iter":
            return "into_iter"
    return "drain"


def attr_hist(case, fail):
    step = fail.get("step", -1)
    kind = fail["kind"]
    if kind in ("abort", "hang"):
        step = fail.get("detail", {}).get("at_step", len(case["steps"]) - 1)
    op = hist_op_at(case, step)
    if op in DRAIN_OPS:
        opp = {"C07"} if hist_drain_kind(case, step) == "drain" else {"C20"}
    else:
        opp = set(HIST_OP_PROPS.get(op, set()))
    in_c01 = op != "from_view"
    props = set()
    if kind.startswith("ledger"):
        props = {"C05"}
    elif kind == "res":
        props = set(opp)
    elif kind == "held":
        props = set(opp)
    elif kind in ("proj", "shape", "shape.lens", "redzone", "abort", "hang"):
        props = set(opp)
        if in_c01:
            props.add("C01")
    else:
        props = set(opp) | {"C01"}
    d = fail.get("detail", {}) if isinstance(fail.get("detail"), dict) else {}
    sig = {"family": "hist", "op": op, "kind": kind,
           "expected": (d.get("expected") or {}).get("k") if isinstance(d.get("expected"), dict) else None,
           "observed": (d.get("observed") or {}).get("k") if isinstance(d.get("observed"), dict) else None}
    return props, sig


def hist_key(case):
    steps = case["steps"]
    last = steps[-1]
    pre = steps[-2]["x"] if len(steps) > 1 else {"nc": 0, "nr": 0}
    trivial = pre.get("nc", 0) == 0 and last["op"] in ("flip_rows", "flip_cols", "shrink_to_fit", "reserve", "reserve_exact")
    if trivial:
        return None
    return [last["op"], last["a"], pre.get("nc", 0), pre.get("nr", 0), [s["op"] for s in steps[:-1]][-3:]]


def hist_tlc_edges(ctx, name, maxc, maxr, workers=1, ops=()):
    cfg = cfg_text(constants={"MaxC": maxc, "MaxR": maxr, "Emit": True, "Walk": False, "WalkLen": 0, "EmitOps": set(ops)},
                   constraints=["Bounded"], view="View", invariants=["ShapeOK", "HandleOK", "GoneIsEmpty"])
    return ctx.tlc_run(name, "TooDeeMC", cfg, workers=workers, coverage=True)


def hist_tlc_walks(ctx, name, maxc, maxr, num, depth):
    cfg = cfg_text(constants={"MaxC": maxc, "MaxR": maxr, "Emit": True, "Walk": True, "WalkLen": depth, "EmitOps": set()},
                   constraints=["Bounded"], invariants=["ShapeOK", "HandleOK", "GoneIsEmpty", "WalkEmit"])
    return ctx.tlc_run(name, "TooDeeMC", cfg, workers=1, simulate="num=%d" % num, seed=ctx.seed, depth=depth + 1)


def last_op_in(ops):
    return lambda c: c["steps"][-1]["op"] in ops


def any_op_in(ops):
    return lambda c: any(s["op"] in ops for s in c["steps"])


def p_C01(ctx):
    ctx.rule = ("cases = every transition TLC explores from every reachable abstract state of the history machine "
                "(each with a shortest real history reaching it) plus random walks; distinct by (final call, its arguments, "
                "shape before, last ops of the prefix); trivial = capacity/flip calls on an empty array")
    ctx.assumptions = HIST_ASSUME
    m = 3 if ctx.quick else 4
    r = hist_tlc_edges(ctx, "edges", m, m)
    ctx.count_nontrivial(r.cases_path, hist_key)
    ctx.sample_from(r.cases_path)
    ctx.replay(r.cases_path, attr_hist, profile="dev", elem="elem", cap=0, label="edges")
    ctx.replay(r.cases_path, attr_hist, profile="release", elem="u32", cap=1, label="edges")
    ctx.replay(r.cases_path, attr_hist, profile="dev", elem="zst", cap=2, label="edges")
    if not ctx.quick:
        ctx.replay(r.cases_path, attr_hist, profile="release", elem="elem", cap=2, label="edges")
        ctx.replay(r.cases_path, attr_hist, profile="dev", elem="u32", cap=0, label="edges")
    w = hist_tlc_walks(ctx, "walks", 4, 4, 150 if ctx.quick else 3000, 40)
    ctx.count_nontrivial(w.cases_path, lambda c: [s["op"] for s in c["steps"]] + [c["steps"][-1]["a"]])
    ctx.sample_from(w.cases_path, 1)
    ctx.replay(w.cases_path, attr_hist, profile="dev", elem="elem", cap=1, label="walks")
    ctx.replay(w.cases_path, attr_hist, profile="release", elem="elem", cap=0, label="walks")


HIST_ASSUME = ["rustc/std Vec, slice and sort implementations", "TLC and the CommunityModules Json module",
               "the harness op interpreter and projection (shared by replay and trace validation)"]


def p_C05(ctx):
    ctx.rule = ("history cases as C01 (edges of the history machine + random walks) replayed with the ledger-carrying element "
                "type and the zero-sized type; after every step: no double drop, no dead/duplicated cell, live elements = "
                "array + handed to caller; at the end nothing live. distinct by (final call, args, shape, prefix tail)")
    ctx.assumptions = HIST_ASSUME
    m = 3 if ctx.quick else 4
    r = hist_tlc_edges(ctx, "edges", m, m)
    ctx.count_nontrivial(r.cases_path, hist_key)
    ctx.sample_from(r.cases_path)
    ctx.replay(r.cases_path, attr_hist, profile="dev", elem="elem", cap=1, label="edges")
    ctx.replay(r.cases_path, attr_hist, profile="release", elem="elem", cap=0, label="edges")
    ctx.replay(r.cases_path, attr_hist, profile="release", elem="zst", cap=0, label="edges")
    if not ctx.quick:
        ctx.replay(r.cases_path, attr_hist, profile="dev", elem="zst", cap=1, label="edges")
        ctx.replay(r.cases_path, attr_hist, profile="dev", elem="elem", cap=2, label="edges")
    w = hist_tlc_walks(ctx, "walks", 4, 4, 150 if ctx.quick else 3000, 40)
    ctx.count_nontrivial(w.cases_path, lambda c: [s["op"] for s in c["steps"]] + [c["steps"][-1]["a"]])
    ctx.sample_from(w.cases_path, 1)
    ctx.replay(w.cases_path, attr_hist, profile="dev", elem="elem", cap=0, label="walks")
    ctx.replay(w.cases_path, attr_hist, profile="release", elem="zst", cap=1, label="walks")


def p_C06(ctx):
    ctx.rule = ("every insert_row/push_row/insert_col/push_col transition from every reachable shape: index 0..dim+1 and huge "
                "(usize::MAX, wrap-adversarial), supplied length 0..dim+1; x element types x capacity modes x build profiles; "
                "distinct by (call, args, shape before)")
    ctx.assumptions = HIST_ASSUME
    m = 4 if ctx.quick else 5
    r = hist_tlc_edges(ctx, "edges", m, m, ops=INSERT_OPS, workers=4)
    ctx.count_nontrivial(r.cases_path, hist_key)
    ctx.sample_from(r.cases_path)
    combos = [("dev", "elem", 0), ("dev", "elem", 1), ("release", "u32", 1), ("release", "elem", 2), ("dev", "zst", 0), ("release", "zst", 1)]
    if not ctx.quick:
        combos += [("dev", "u32", 0), ("dev", "u32", 2), ("release", "elem", 0), ("release", "elem", 1), ("dev", "elem", 2)]
    for prof, elem, cap in combos:
        ctx.replay(r.cases_path, attr_hist, profile=prof, elem=elem, cap=cap, label="insert-edges")


def p_C07(ctx):
    ctx.rule = ("every remove_row/pop_row/remove_col/pop_col transition and every drain step (next/next_back/len/drop) from "
                "every (shape, removed index, taken-from-front, taken-from-back) state; x element types x capacity modes x "
                "profiles; distinct by (call, args, shape, drain position)")
    ctx.assumptions = HIST_ASSUME
    m = 4 if ctx.quick else 5
    r = hist_tlc_edges(ctx, "edges", m, m, ops=REMOVE_OPS | DRAIN_OPS, workers=4)
    sel = os.path.join(ctx.outdir, "drain.cases.ndjson")
    core.filter_cases(r.cases_path, sel, lambda c: c["steps"][-1]["op"] in REMOVE_OPS or hist_drain_kind(c, len(c["steps"]) - 1) == "drain")
    ctx.count_nontrivial(sel, lambda c: [c["steps"][-1]["op"], c["steps"][-1]["a"], [(s["op"], s["a"]) for s in c["steps"][:-1]][-6:]])
    ctx.sample_from(sel)
    combos = [("dev", "elem", 0), ("dev", "elem", 1), ("release", "u32", 1), ("release", "elem", 2), ("dev", "zst", 0)]
    if not ctx.quick:
        combos += [("dev", "u32", 0), ("release", "zst", 1), ("release", "elem", 0), ("dev", "elem", 2)]
    for prof, elem, cap in combos:
        ctx.replay(sel, attr_hist, profile=prof, elem=elem, cap=cap, label="drain-edges")


PIPELINES = {
    "C01": p_C01,
    "C05": p_C05,
    "C06": p_C06,
    "C07": p_C07,
}


def rerun(prop, path):
    """Re-execute the case stored in a replay file."""
    with open(path) as f:
        rec = json.load(f)
    tmp = path + ".case.ndjson"
    with open(tmp, "w") as f:
        f.write(json.dumps(rec["case"]) + "\n")
    n, fails = core.replay(tmp, profile=rec.get("profile", "dev"), elem=rec.get("elem", "elem"), cap=rec.get("cap", 0),
                           extra_args=rec.get("extra_args", ()))
    os.unlink(tmp)
    if fails:
        print(json.dumps(fails, indent=1))
        print("VIOLATION property=%s replay=%s" % (prop, path))
        return 1
    print("case conforms on the current tree")
    return 0
