"""Seeded random generators of LARGE cases (beyond TLC's enumeration bounds).  The cases carry no expectations
(x = null): the harness logs what the real crate did and TLC judges the log with the *Trace specifications."""
import json, random


def _len_pick(rnd, hi):
    """a length in 0..hi; one time in three right at / next to a power of two (size thresholds of fast paths)"""
    if hi >= 7 and rnd.random() < 0.33:
        cands = [v for k in range(3, 8) for v in (2 ** k - 1, 2 ** k, 2 ** k + 1) if v <= hi]
        if cands:
            return rnd.choice(cands)
    return rnd.randint(0, hi)


def _span(rnd, n, keep_large):
    """a sub-range [s, e) of 0..n"""
    if keep_large and n > 12:
        s = rnd.randint(0, min(3, n)); e = n - rnd.randint(0, min(3, n - s))
        return s, e
    w = _len_pick(rnd, n)
    s = rnd.randint(0, n - w)
    return s, s + w


def _window(rnd, c, r, allow_empty=True, keep_large=False):
    sc, ec = _span(rnd, c, keep_large)
    sr, er = _span(rnd, r, keep_large)
    if not allow_empty and (sc == ec or sr == er) and c > 0 and r > 0:
        sc, ec = 0, c; sr, er = rnd.randint(0, r - 1), r
    return [sc, sr], [ec, er]


def _size(stack, nc, nr):
    size = (nc, nr)
    for w in stack:
        ext = (w["e"][0] - w["s"][0], w["e"][1] - w["s"][1])
        size = (0, 0) if ext[0] == 0 or ext[1] == 0 else ext
    return size


def _idx(rnd, n):
    """mostly valid, sometimes the boundary or one past"""
    t = rnd.random()
    if t < 0.08:
        return n
    if t < 0.12:
        return n + 1
    return rnd.randint(0, max(n - 1, 0))


_BUDGET = [40]          # very long shapes per generated file (reset by the generators): they dominate the log size


def _shape(rnd, maxdim, large_share=0.25):
    """mostly small; one case in four has a LONG dimension (up to 130) and hundreds to thousands of cells, because
    size-gated code paths (fast paths above some length, chunked loops) are invisible on small shapes"""
    t = rnd.random()
    if t >= large_share:
        return rnd.randint(1, maxdim), rnd.randint(1, maxdim)
    if large_share > 0 and t < 0.012 and _BUDGET[0] > 0:
        _BUDGET[0] -= 1
        # VERY long and thin: one dimension of 131 .. 9000 (often at / next to a power of two or a round block size), the
        # other 2 .. 4 - block-wise loops over a line (4096-element blocks, 64-row chunks) only show on such shapes
        if rnd.random() < 0.5:
            a = rnd.choice([v for k in range(8, 14) for v in (2 ** k - 1, 2 ** k, 2 ** k + 1, 2 ** k + 2 ** (k - 2) + 5)])
        else:
            a = rnd.randint(131, 9000)
        b = rnd.randint(2, 4)
        return (a, b) if rnd.random() < 0.5 else (b, a)
    a = rnd.randint(13, 130)
    b = rnd.randint(1, max(1, min(40, 2600 // a)))
    return (a, b) if rnd.random() < 0.5 else (b, a)


def _divisor_mid(rnd, n):
    """a translate mid that shares a large factor with the dimension (multi-cycle row permutations)"""
    divs = [d for d in range(2, n + 1) if n % d == 0]
    if not divs:
        return rnd.randint(0, n)
    g = rnd.choice(divs)
    return (n // g) * rnd.randint(0, g)


def acc_cases(seed, n, maxdim, groups, path, large_share=0.25):
    rnd = random.Random(seed)
    _BUDGET[0] = 40
    with open(path, "w") as f:
        made = 0
        while made < n:
            nc, nr = _shape(rnd, maxdim, large_share)
            ids = [3 * (i + 1) for i in range(nc * nr)]
            stack = []
            c, r = nc, nr
            for _ in range(rnd.choice([0, 1, 1, 1, 2])):
                s, e = _window(rnd, c, r, allow_empty=rnd.random() < 0.1, keep_large=rnd.random() < 0.8)
                stack.append({"k": "m", "s": s, "e": e})
                c, r = _size(stack, nc, nr)
            g = rnd.choice(groups)
            a = None
            if g == "prim":
                op = rnd.choice(["swap", "swap_rows", "swap_cols", "row_pair_swap", "fill", "write_rows_mut", "write_cells_mut", "write_col_mut"])
                if op == "swap":
                    a = {"c1": _idx(rnd, c), "r1": _idx(rnd, r), "c2": _idx(rnd, c), "r2": _idx(rnd, r)}
                elif op in ("swap_rows", "row_pair_swap"):
                    a = {"r1": _idx(rnd, r), "r2": _idx(rnd, r)}
                elif op == "swap_cols":
                    a = {"c1": _idx(rnd, c), "c2": _idx(rnd, c)}
                elif op == "fill":
                    a = {"v": 1000}
                elif op == "write_col_mut":
                    a = {"c": _idx(rnd, c), "v": 1000, "rev": rnd.random() < 0.5}
                else:
                    a = {"v": 1000, "rev": rnd.random() < 0.5}
            elif g == "move":
                op = rnd.choice(["translate", "translate", "translate", "flip_rows", "flip_cols"])
                if op == "translate":
                    mc = rnd.randint(0, c + 1) if rnd.random() < 0.1 else rnd.randint(0, c)
                    mr = rnd.randint(0, r + 1) if rnd.random() < 0.1 else rnd.randint(0, r)
                    if r >= 4 and rnd.random() < 0.4:
                        mr = _divisor_mid(rnd, r)
                    if rnd.random() < 0.25:
                        mc = 0                                         # pure vertical scroll
                    a = {"mc": mc, "mr": mr}
                else:
                    a = {"z": 0}
            elif g == "copy":
                op = rnd.choice(["copy_within"] * 6 + ["copy_from_slice", "clone_from_slice", "copy_from_toodee", "clone_from_toodee"])
                if op == "copy_within":
                    tl, br = _window(rnd, c, r)
                    w, h = br[0] - tl[0], br[1] - tl[1]
                    def place(lo, ext, room):
                        """destination offset along one axis by relative-placement class: before & disjoint, before &
                        overlapping, same, after & overlapping, after & disjoint (when the class is feasible)"""
                        classes = []
                        if lo - ext >= 0: classes.append((0, lo - ext))                       # disjoint, before
                        if lo > 0 and ext > 1: classes.append((max(0, lo - ext + 1), lo - 1))  # overlapping, before
                        classes.append((lo, lo))
                        if ext > 1 and lo + 1 <= room - ext: classes.append((lo + 1, min(lo + ext - 1, room - ext)))
                        if lo + ext <= room - ext: classes.append((lo + ext, room - ext))      # disjoint, after
                        a0, b0 = rnd.choice(classes)
                        return rnd.randint(a0, max(a0, b0))
                    t = rnd.random()
                    if t < 0.3:
                        d = [place(tl[0], w, c), tl[1]]               # purely horizontal move
                    elif t < 0.5:
                        d = [tl[0], place(tl[1], h, r)]               # purely vertical move
                    elif t < 0.88:
                        d = [place(tl[0], w, c), place(tl[1], h, r)]
                    else:
                        d = [rnd.randint(0, c + 1), rnd.randint(0, r + 1)]
                    a = {"tl": tl, "br": br, "d": d}
                elif op.endswith("slice"):
                    k = c * r + (rnd.choice([0, 0, 0, 0, 1, -1]) if c * r > 0 else rnd.choice([0, 1]))
                    a = {"src": [500 + i for i in range(1, k + 1)]}
                else:
                    snc, snr = c, r
                    if rnd.random() < 0.15 and c > 0:
                        snc, snr = c + rnd.choice([-1, 1]), r
                        if snc == 0:
                            snr = 0
                    a = {"sk": rnd.choice(["owned", "view", "strided"]), "snc": snc, "snr": snr, "src": [500 + i for i in range(1, snc * snr + 1)]}
            elif g == "read":
                op = rnd.choice(["idx_coord", "idx_row", "col_idx", "row", "col", "size", "view"])
                if op in ("idx_coord", "idx_row", "col_idx"):
                    a = {"c": _idx(rnd, c), "r": _idx(rnd, r)}
                elif op == "row":
                    a = {"r": _idx(rnd, r)}
                elif op == "col":
                    a = {"c": _idx(rnd, c)}
                elif op == "view":
                    s, e = _window(rnd, c, r)
                    if rnd.random() < 0.1:
                        e = [e[0] + 1, e[1]]
                    a = {"s": s, "e": e}
                else:
                    a = {"z": 0}
            elif g == "write":
                op = rnd.choice(["idxm_coord", "idxm_row", "colm_idxm", "view_mut"])
                if op == "view_mut":
                    s, e = _window(rnd, c, r)
                    a = {"s": s, "e": e, "v": 1000}
                else:
                    a = {"c": _idx(rnd, c), "r": _idx(rnd, r), "v": 1000}
            elif g == "sort":
                op = "sort"
                by = rnd.choice(["row", "col"])
                if max(c, r) > 600:
                    by = "col" if c > r else "row"          # very long shapes: short key line, long lines change places
                nlines = r if by == "row" else c
                line = _idx(rnd, nlines)
                form = rnd.choice(["cmp", "key", "ord", "skey", "bkey"])
                a = {"by": by, "stable": True, "form": form, "line": line}
                # give every cell a random key so that the key line has ties
                ids = [3 * (i + 1) + rnd.randint(0, 2) for i in range(nc * nr)]
                # structured key lines (sorted, reversed, sorted prefix + one appended, nearly sorted, all equal)
                pat = rnd.randint(0, 9)
                if pat >= 3 and line < nlines:
                    a0 = [0, 0]
                    for w in stack:
                        a0 = [a0[0] + w["s"][0], a0[1] + w["s"][1]]
                    kn = c if by == "row" else r
                    keys = [(i * 3) // max(kn, 1) for i in range(kn)]
                    if pat == 4: keys.reverse()
                    elif pat == 5 and kn: keys[-1] = rnd.randint(0, 2)
                    elif pat == 6 and kn:
                        for _ in range(rnd.randint(1, 3)):
                            i1, i2 = rnd.randrange(kn), rnd.randrange(kn); keys[i1], keys[i2] = keys[i2], keys[i1]
                    elif pat == 7: keys = [1] * kn
                    elif pat >= 8 and kn:
                        # a rotation of a sorted line (what translate leaves behind); pat 9: cut inside a run of equal keys
                        k0 = rnd.randrange(kn)
                        if pat == 9:
                            keys = [(i * 5) // kn for i in range(kn)]
                            keys = [0 if v == 4 else v for v in keys]     # the last run equals the first
                            k0 = 0
                        keys = keys[k0:] + keys[:k0]
                    for i in range(kn):
                        x, y = (a0[0] + i, a0[1] + line) if by == "row" else (a0[0] + line, a0[1] + i)
                        ids[y * nc + x] = ids[y * nc + x] // 3 * 3 + keys[i]
            else:
                raise ValueError(g)
            case = {"fam": "acc", "root": {"kind": "owned", "nc": nc, "nr": nr, "ids": ids}, "stack": stack,
                    "calls": [{"op": op, "a": a, "x": None}]}
            f.write(json.dumps(case) + "\n")
            made += 1
        if "move" in groups and large_share > 0:
            made += translate_lattice(rnd, f)
        if large_share > 0 and ({"prim", "sort", "move", "copy"} & set(groups)):
            made += thin_lattice(rnd, f, groups)
    return made


def thin_lattice(rnd, f, groups):
    """Whole-line operations on very long thin shapes, deterministically: line lengths at and around the block sizes a
    blocked loop would use (4096, 8192) and one arbitrary length, wide and tall, owned and through a window; the
    operations that move whole lines (swap_rows / swap_cols, sorts that have to exchange the two outer lines, flips,
    translate by half) - a random case hits such a shape with such a call once in a few hundred runs."""
    n = 0
    for L in [4097, rnd.choice([4095, 4096, 8193]), rnd.randint(4098, 9000)]:
        for wide in (True, False):
            S = rnd.choice([2, 3])
            C, R = (L, S) if wide else (S, L)
            windowed = rnd.random() < 0.6
            nc, nr = (C + 2, R + 1) if windowed else (C, R)
            stack = [{"k": "m", "s": [1, 0], "e": [C + 1, R]}] if windowed else []
            off = 1 if windowed else 0
            calls = []
            if "prim" in groups:
                calls += [("swap_rows", {"r1": 0, "r2": R - 1}), ("swap_cols", {"c1": 0, "c2": C - 1}), ("swap_rows", {"r1": R - 1, "r2": 0})]
            if "move" in groups:
                calls += [("flip_rows", {"z": 0}), ("flip_cols", {"z": 0}), ("translate", {"mc": C // 2, "mr": R // 2})]
            if "copy" in groups:
                # long rows / columns moved by one (overlapping), onto the opposite edge (disjoint), and a full-size source
                calls += [("copy_within", {"tl": [0, 0], "br": [C - 1, R - 1], "d": [1, 1]}),
                          ("copy_within", {"tl": [1, 0], "br": [C, R], "d": [0, 0]}),
                          ("copy_within", ({"tl": [0, 0], "br": [C, 1], "d": [0, R - 1]} if wide else {"tl": [0, 0], "br": [1, R], "d": [C - 1, 0]})),
                          ("copy_from_toodee", {"sk": rnd.choice(["owned", "view", "strided"]), "snc": C, "snr": R,
                                                "src": [500 + i for i in range(1, C * R + 1)]})]
            if "sort" in groups:
                # the key line is the SHORT one (2 - 3 keys), the lines exchanged are the long ones; long key lines are the
                # business of the sort-line pipeline (SortTrace.tla is linear in the line, AccessTrace.tla is not)
                calls += [("sort", {"by": "col" if wide else "row", "stable": True, "form": form, "line": 0}) for form in ("cmp", "key", "ord")]
            for op, a in calls:
                ids = [3 * (i + 1) for i in range(nc * nr)]
                if op == "sort":
                    # the key line runs downwards with ties, so that the outer lines have to change places
                    kn = R if a["by"] == "col" else C
                    for i in range(kn):
                        x, y = (off, i) if a["by"] == "col" else (off + i, 0)
                        ids[y * nc + x] = ids[y * nc + x] // 3 * 3 + (2 - (i * 3) // kn)
                case = {"fam": "acc", "root": {"kind": "owned", "nc": nc, "nr": nr, "ids": ids}, "stack": stack,
                        "calls": [{"op": op, "a": a, "x": None}]}
                f.write(json.dumps(case) + "\n")
                n += 1
    return n


def translate_lattice(rnd, f):
    """translate_with_wrap permutes rows along gcd(R, mr) cycles of length R / gcd and rotates columns by mc: the
    parameters that matter are (gcd, cycle length, mc mod C), not the cell values.  On a few tall shapes take EVERY
    row mid whose gcd with R is large (many cycles: where chunked / batched cycle walks live) with every column mid,
    on owned arrays and through windows (1 case in 3)."""
    from math import gcd
    n = 0
    talls = [132, 256, 300] + [rnd.choice([192, 264, 396, 512, 528, 600])]
    for R in talls:
        mids = [m for m in range(1, R) if gcd(R, m) >= 32]
        for C in rnd.sample([1, 2, 3, 4, 6], 3):
            for mr in mids:
                for mc in range(0, C + 1):
                    if rnd.random() < 0.5 and not (mc > 0 and ((R // gcd(R, mr)) * mc) % C == 0):
                        continue                                      # thin the generic ones, keep the resonant ones
                    windowed = rnd.random() < 0.33
                    nc, nr = (C + 2, R + 2) if windowed else (C, R)
                    stack = [{"k": "m", "s": [1, 1], "e": [C + 1, R + 1]}] if windowed else []
                    case = {"fam": "acc", "root": {"kind": "owned", "nc": nc, "nr": nr, "ids": [3 * (i + 1) for i in range(nc * nr)]},
                            "stack": stack, "calls": [{"op": "translate", "a": {"mc": mc, "mr": mr}, "x": None}]}
                    f.write(json.dumps(case) + "\n")
                    n += 1
    return n


def iter_cases(seed, n, maxdim, kinds, path, large_share=0.3):
    """random call sequences on one iterator; shapes skewed towards long rows / columns"""
    rnd = random.Random(seed)
    _BUDGET[0] = 0                                     # no very long shapes here (the cell count is capped just below)
    with open(path, "w") as f:
        for _ in range(n):
            nc, nr = _shape(rnd, maxdim, large_share)
            while nc * nr > 700:                       # keep trace validation cheap: long but thin
                if nc >= nr: nr = max(1, nr // 2)
                else: nc = max(1, nc // 2)
            ids = [3 * (i + 1) for i in range(nc * nr)]
            stack = []
            c, r = nc, nr
            for _ in range(rnd.choice([0, 0, 1, 1, 2])):
                s, e = _window(rnd, c, r, allow_empty=rnd.random() < 0.05, keep_large=rnd.random() < 0.8)
                stack.append({"k": "m", "s": s, "e": e})
                c, r = _size(stack, nc, nr)
            t = rnd.choice(kinds)
            col = rnd.randint(0, max(c - 1, 0))
            if t in ("col", "col_mut") and c == 0:
                t = "rows"
            items = c * r if t in ("cells", "cells_mut", "into_ref", "into_mut") else r
            lo, hi = 0, items
            calls = []
            for _ in range(rnd.randint(1, 6)):
                rem = hi - lo
                ops = ["next", "next_back", "nth", "nth", "nth_back", "nth_back", "len", "find", "rfind", "try_fold", "try_rfold", "position", "rposition"]
                if t in ("col", "col_mut"):
                    ops.append("index")
                if rnd.random() < 0.12:
                    ops = ["count", "last", "fold", "rfold", "for_each", "rev_for_each"]
                op = rnd.choice(ops)
                if op in ("find", "rfind", "try_fold", "try_rfold", "position", "rposition"):
                    a = {"n": rnd.choice([0, 1, max(rem - 1, 0), rem, rem + 1, rnd.randint(0, rem + 1)])}
                elif op in ("nth", "nth_back", "index"):
                    cands = [0, 1, max(rem - 1, 0), rem, rem + 1, 1000001]
                    if c > 0:
                        cands += [c - 1, c, c + 1, 2 * c, max(rem - c, 0), rnd.randint(0, rem + 1)]
                    nn = rnd.choice(cands) if rnd.random() < 0.7 else rnd.randint(0, rem + 1)
                    a = {"n": nn}
                else:
                    a = {"z": 0}
                calls.append({"op": op, "a": a, "x": None})
                # track the ideal position so that later arguments stay interesting
                if op == "next" and rem > 0: lo += 1
                elif op == "next_back" and rem > 0: hi -= 1
                elif op in ("nth", "find", "try_fold", "position"): lo = lo + a["n"] + 1 if a["n"] < rem else hi
                elif op in ("nth_back", "rfind", "try_rfold", "rposition"): hi = hi - a["n"] - 1 if a["n"] < rem else lo
                elif op in ("count", "last", "fold", "rfold", "for_each", "rev_for_each"):
                    break
            case = {"fam": "iter", "root": {"kind": "owned", "nc": nc, "nr": nr, "ids": ids}, "stack": stack,
                    "kind": {"t": t, "c": col}, "calls": calls}
            f.write(json.dumps(case) + "\n")
    return n
