import json, os, sys, time, hashlib
import core
from core import ToolError, log


class Ctx:
    def __init__(self, prop, tier, seed):
        self.prop = prop
        self.tier = tier
        self.seed = seed
        self.quick = tier == "quick"
        self.outdir = os.path.join(core.OUT, prop)
        os.makedirs(self.outdir, exist_ok=True)
        # wipe old replay files of this property
        for f in os.listdir(self.outdir):
            if f.startswith("violation_"):
                os.unlink(os.path.join(self.outdir, f))
        self.t0 = time.time()
        self.tlc = []            # per TLC run: dict
        self.replays = []        # per replay run: dict
        self.violations = []     # dicts
        self.known_hits = []
        self.other = []          # failures attributed to other properties (not this check's verdict)
        self.samples = []
        self.cases_replayed = 0
        self.traces_validated = 0
        self.events_validated = 0
        self.nontrivial = set()
        self.notes = []
        self.known = core.load_known()
        self.assumptions = []
        self.rule = ""

    # ---- TLC -------------------------------------------------------------------------
    def tlc_run(self, name, module, cfg, **kw):
        r = core.run_tlc(self.outdir, name, module, cfg, **kw)
        self.tlc.append({"name": name, "module": module, "states_generated": r.generated, "distinct_states": r.distinct,
                         "depth": r.depth, "cases_emitted": r.cases, "wall_s": round(r.wall, 1),
                         "coverage": r.coverage if r.coverage else None})
        log("[tlc] %s: %d generated, %d distinct, %d cases, %.1fs" % (name, r.generated, r.distinct, r.cases, r.wall))
        if r.violation:
            # the specification itself violates one of its invariants: a design-level counterexample
            p = os.path.join(self.outdir, "violation_spec_%s.txt" % name)
            with open(p, "w") as f:
                f.write(r.violation)
            self.violations.append({"prop": self.prop, "replay": p, "summary": "TLC found the specification violating its own invariant in %s" % name})
        return r

    # ---- replay ----------------------------------------------------------------------
    def replay(self, cases_path, attribute, profile="dev", elem="elem", cap=0, extra_args=(), label=None, nontrivial=None):
        t0 = time.time()
        n, fails = core.replay(cases_path, profile=profile, elem=elem, cap=cap, extra_args=extra_args)
        self.cases_replayed += n
        self.replays.append({"cases": n, "profile": profile, "elem": elem, "cap": cap, "failed_cases": len(fails),
                             "label": label or os.path.basename(cases_path), "wall_s": round(time.time() - t0, 1)})
        log("[replay] %s %s/%s/cap%d: %d cases, %d failing" % (label or os.path.basename(cases_path), profile, elem, cap, n, len(fails)))
        cases = core.read_cases(cases_path, set(fr["case"] for fr in fails)) if fails else {}
        for fr in fails:
            case = cases[fr["case"]]
            for fl in fr["fails"]:
                props, sig = attribute(case, fl)
                rec = {"case": case, "fail": fl, "profile": profile, "elem": elem, "cap": cap,
                       "extra_args": list(extra_args), "attributed_to": sorted(props), "signature": sig}
                if self.prop in props:
                    k = core.match_known(self.known, self.prop, sig)
                    if k is not None:
                        self.known_hits.append((k, rec))
                    else:
                        self.add_violation(rec, "%s %s: %s" % (sig.get("op"), fl["kind"], json.dumps(fl["detail"])[:300]))
                else:
                    self.other.append({"attributed_to": sorted(props), "signature": sig})
        return n, fails

    def add_violation(self, rec, summary):
        i = len(self.violations)
        if i >= 25:
            self.violations.append({"prop": self.prop, "replay": self.violations[-1]["replay"], "summary": summary, "suppressed_file": True})
            return
        p = os.path.join(self.outdir, "violation_%03d.json" % i)
        rec = dict(rec)
        rec["property"] = self.prop
        rec["rerun"] = "./check %s --replay %s" % (self.prop, p)
        with open(p, "w") as f:
            json.dump(rec, f, indent=1)
        self.violations.append({"prop": self.prop, "replay": p, "summary": summary})

    # ---- trace validation (code -> spec) ----------------------------------------------
    def replay_and_validate(self, cases_path, attribute, attribute_event, module="TooDeeTrace", profile="dev", elem="elem", cap=0,
                            label=None, invariants=("ShapeOK", "HandleOK")):
        """Replay cases with event logging, then let TLC validate the recorded trace against the trace specification."""
        label = label or os.path.basename(cases_path)
        logp = os.path.join(self.outdir, "%s.%s.%s.cap%d.events.ndjson" % (label, profile, elem, cap))
        if os.path.exists(logp):
            os.unlink(logp)
        self.replay(cases_path, attribute, profile=profile, elem=elem, cap=cap, extra_args=("--log", logp), label=label)
        if not os.path.exists(logp):
            return
        t0 = time.time()
        def enough(rej):
            n = 0
            for r in rej:
                if r.get("event") is None:
                    continue
                c = core.read_case(cases_path, r["case"]) if r.get("case") is not None else None
                if self.prop in attribute_event(c, r["event"])[0]:
                    n += 1
            return n >= 3
        ok, rejected, states = core.validate_trace(self.outdir, "%s.%s.%s.cap%d" % (label, profile, elem, cap), module, logp,
                                                   invariants=invariants, priority=getattr(self, "priority_event", None), enough=enough)
        nev = core.count_lines(logp)
        self.events_validated += ok
        self.traces_validated += 1
        self.tlc.append({"name": "trace:" + label, "module": module, "states_generated": states, "distinct_states": states,
                         "depth": 0, "cases_emitted": 0, "wall_s": round(time.time() - t0, 1), "coverage": None,
                         "trace_events": nev, "trace_events_accepted": ok, "trace_rejections": len(rejected)})
        if len(self.samples) < 6:
            with open(logp) as f:
                for i, line in enumerate(f):
                    if i == 1:
                        self.samples.append({"trace_event": json.loads(line)})
                        break
        wanted = set(r["case"] for r in rejected if r.get("case") is not None)
        cases = core.read_cases(cases_path, wanted) if wanted else {}
        for r in rejected:
            if r.get("event") is None:
                if r.get("invariant_violated"):
                    self.add_violation({"trace": True, "invariant": r["invariant_violated"]}, "trace invariant violated")
                else:
                    self.notes.append(r.get("note", "trace validation stopped early"))
                continue
            case = cases.get(r["case"])
            props, sig = attribute_event(case, r["event"])
            rec = {"case": case, "trace": True, "rejected_event": r["event"], "line": r["line"], "profile": profile, "elem": elem,
                   "cap": cap, "attributed_to": sorted(props), "signature": sig, "trace_module": module}
            if self.prop in props:
                k = core.match_known(self.known, self.prop, sig)
                if k is not None:
                    self.known_hits.append((k, rec))
                else:
                    self.add_violation(rec, "trace rejected at %s %s: post=%s" % (r["event"].get("ev"), json.dumps(r["event"].get("fault")),
                                                                                 json.dumps(r["event"].get("post"))[:200]))
            else:
                self.other.append({"attributed_to": sorted(props), "signature": sig})

    def drive_and_validate(self, label, drive_args, module, attribute_event, profile="dev", invariants=(), filter_event=None):
        """Run the random driver on the real crate, then validate its event log with TLC."""
        import subprocess
        logp = os.path.join(self.outdir, "%s.%s.events.ndjson" % (label, profile))
        cmd = [core.binpath("drive", profile)] + [str(a).replace("{out}", logp) for a in drive_args]
        t0 = time.time()
        # a driver run takes seconds; one that is still running after the limit is stuck inside the code under test (a hang is
        # an observation too: it is reported like a crash, with the history in which it happened)
        limit = 300 if self.quick else 3600
        pr = subprocess.Popen(cmd, stdout=subprocess.PIPE, stderr=subprocess.PIPE, text=True, env=dict(os.environ, RUST_BACKTRACE="0"))
        try:
            so, se = pr.communicate(timeout=limit)
            r = subprocess.CompletedProcess(cmd, pr.returncode, so, se)
        except subprocess.TimeoutExpired:
            pr.kill()
            so, se = pr.communicate()
            r = subprocess.CompletedProcess(cmd, "hang (killed after %ds)" % limit, so or "", se or "")
        if r.returncode != 0:
            # the driver process died: the code under test aborted / crashed inside the history it had just begun.
            # That is an observation no specification action allows.
            hs = [l for l in r.stdout.splitlines() if l.startswith("H ")]
            lasth = hs[-1][2:] if hs else "?"
            self.notes.append("driver %s exited with %s in history %s" % (label, r.returncode, lasth))
            props, sig = attribute_event(None, {"ev": "abort"})
            rec = {"driver": " ".join(cmd), "returncode": r.returncode, "history": lasth, "profile": profile,
                   "attributed_to": sorted(props), "signature": sig, "driver_mode": True,
                   "note": "the process running the real crate died in this (seed-determined) history"}
            if self.prop in props:
                self.add_violation(rec, "the random driver process died (abort/crash in the code under test) in history %s" % lasth)
            else:
                self.other.append({"attributed_to": sorted(props), "signature": sig})
            # keep only complete lines of what was logged before the crash
            if os.path.exists(logp):
                good = []
                with open(logp) as f:
                    for line in f:
                        try:
                            json.loads(line)
                            good.append(line)
                        except ValueError:
                            break
                with open(logp, "w") as f:
                    f.writelines(good)
            if not os.path.exists(logp) or core.count_lines(logp) == 0:
                return
        if filter_event is not None:
            tmp = logp + ".sel"
            with open(logp) as fi, open(tmp, "w") as fo:
                for line in fi:
                    if filter_event(json.loads(line)):
                        fo.write(line)
            logp = tmp
        nev = core.count_lines(logp)
        def enough(rej):
            return sum(1 for r in rej if r.get("event") is not None and self.prop in attribute_event(None, r["event"])[0]) >= 3
        ok, rejected, states = core.validate_trace(self.outdir, "%s.%s" % (label, profile), module, logp, invariants=invariants,
                                                   priority=getattr(self, "priority_event", None), enough=enough)
        self.events_validated += ok
        self.traces_validated += 1
        self.tlc.append({"name": "trace:" + label, "module": module, "states_generated": states, "distinct_states": states,
                         "depth": 0, "cases_emitted": 0, "wall_s": round(time.time() - t0, 1), "coverage": None,
                         "trace_events": nev, "trace_events_accepted": ok, "trace_rejections": len(rejected), "driver": " ".join(cmd)})
        log("[drive] %s/%s: %d events, %d accepted, %d rejected" % (label, profile, nev, ok, len(rejected)))
        with open(logp) as f:
            for i, line in enumerate(f):
                if i == 1 and len(self.samples) < 8:
                    e = json.loads(line)
                    for k in ("before", "after"):
                        if k in e and len(e[k]) > 24:
                            e[k] = e[k][:24] + ["..."]
                    self.samples.append({"driver_event": e})
                if i >= 1:
                    break
        for rj in rejected:
            ev = rj.get("event")
            if ev is None:
                if rj.get("invariant_violated"):
                    self.add_violation({"trace": True, "invariant": rj["invariant_violated"]}, "trace invariant violated")
                else:
                    self.notes.append(rj.get("note", "trace validation stopped early"))
                continue
            props, sig = attribute_event(None, ev)
            # keep the events of the rejected history as the replay artefact
            hist = []
            with open(logp) as f:
                for line in f:
                    e = json.loads(line)
                    if e.get("case") == ev.get("case"):
                        hist.append(e)
            rec = {"driver": " ".join(cmd), "trace": True, "rejected_event": ev, "history": hist[:400], "profile": profile,
                   "attributed_to": sorted(props), "signature": sig, "trace_module": module, "driver_mode": True}
            if self.prop in props:
                k = core.match_known(self.known, self.prop, sig)
                if k is not None:
                    self.known_hits.append((k, rec))
                else:
                    self.add_violation(rec, "driver trace rejected at %s" % json.dumps({k: v for k, v in ev.items() if k not in ("before", "after")})[:300])
            else:
                self.other.append({"attributed_to": sorted(props), "signature": sig})

    def random_cases_validate(self, label, generate, module, attribute, attribute_event, profile="dev", elem="u32", invariants=()):
        """Large random cases (no expectations) -> real crate with event logging -> TLC trace validation."""
        cases_path = os.path.join(self.outdir, "%s.random.cases.ndjson" % label)
        n = generate(cases_path)
        have = core.count_lines(cases_path)
        if have < max(1, n // 3):
            # guard against silent loss of coverage (a generator bug must not turn into a vacuous pass)
            raise ToolError("random generator for %s produced %d cases, %d requested" % (label, have, n))
        self.count_nontrivial(cases_path, lambda c: c)
        if len(self.samples) < 8:
            self.samples.append({"random_case": core.read_case(cases_path, 0)})
        self.replay_and_validate(cases_path, attribute, attribute_event, module=module, profile=profile, elem=elem,
                                 label=label + "-random", invariants=invariants)

    def repo_tests_trace(self, attribute_event, module="ShapeTrace"):
        """Third binding path: run the repository's own test-suite with the cfg-guarded dimension hook and validate
        every recorded shape transition with TLC."""
        import subprocess, shutil, glob
        tdir = os.path.join(self.outdir, "hooktrace")
        shutil.rmtree(tdir, ignore_errors=True)
        os.makedirs(tdir)
        flags = "--cfg toodee_verif --check-cfg cfg(toodee_verif)"
        env = dict(os.environ, RUSTFLAGS=flags, RUSTDOCFLAGS=flags, CARGO_TARGET_DIR=os.path.join(core.OUT, "hooktarget"),
                   TOODEE_VERIF_TRACE=tdir, CARGO_NET_OFFLINE="true")
        t0 = time.time()
        r = subprocess.run(["cargo", "test", "--offline", "--no-fail-fast", "--quiet"], cwd="/repo", env=env,
                           stdout=subprocess.PIPE, stderr=subprocess.STDOUT, text=True)
        if "error: could not compile" in r.stdout or "error[E" in r.stdout:
            # hooks are an extra observation path, never a verdict's precondition
            self.notes.append("repository tests could not be built with the verification hooks; trace path skipped")
            log("[hooks] skipped: the repository does not build with --cfg toodee_verif")
            return
        files = sorted(glob.glob(os.path.join(tdir, "*.ndjson")))
        logp = os.path.join(self.outdir, "hooktrace.events.ndjson")
        nev = 0
        with open(logp, "w") as fo:
            for fn in files:
                with open(fn) as fi:
                    for line in fi:
                        try:
                            json.loads(line)
                        except ValueError:
                            continue
                        fo.write(line)
                        nev += 1
        self.notes.append("repository test-suite with hooks: %d threads traced, %d shape transitions, cargo test rc=%d" % (len(files), nev, r.returncode))
        if nev == 0:
            self.notes.append("the hooked test-suite produced no trace (hooks missing from /repo?); trace path skipped")
            return
        ok, rejected, states = core.validate_trace(self.outdir, "hooktrace", module, logp, invariants=("TypeOK",))
        self.events_validated += ok
        self.traces_validated += len(files)
        self.tlc.append({"name": "trace:repo-tests", "module": module, "states_generated": states, "distinct_states": states, "depth": 0,
                         "cases_emitted": 0, "wall_s": round(time.time() - t0, 1), "coverage": None, "trace_events": nev,
                         "trace_events_accepted": ok, "trace_rejections": len(rejected)})
        log("[hooks] repository tests: %d events from %d threads, %d rejected" % (nev, len(files), len(rejected)))
        for rj in rejected:
            ev = rj.get("event")
            if ev is None:
                continue
            props, sig = attribute_event(None, ev)
            rec = {"trace": True, "rejected_event": ev, "source": "repository test-suite run with --cfg toodee_verif", "attributed_to": sorted(props),
                   "signature": sig, "trace_module": module, "driver_mode": True}
            if self.prop in props:
                self.add_violation(rec, "shape transition of the repository's own tests rejected: %s" % json.dumps(ev))
            else:
                self.other.append({"attributed_to": sorted(props), "signature": sig})

    def apalache_inductive(self, module, init, ind_init, inv):
        """Unbounded argument: Apalache checks Init => Inv and Inv /\ Next => Inv' (symbolically, no bounds on the integers)."""
        import subprocess, shutil
        for name, args in (("init", ["--init=" + init, "--inv=" + inv, "--length=0"]), ("step", ["--init=" + ind_init, "--inv=" + inv, "--length=1"])):
            od = os.path.join(self.outdir, "apalache-" + name)
            shutil.rmtree(od, ignore_errors=True)
            t0 = time.time()
            try:
                r = subprocess.run(["apalache-mc", "check", "--out-dir=" + od] + args + [os.path.join(core.SPEC, module + ".tla")],
                                   stdout=subprocess.PIPE, stderr=subprocess.STDOUT, text=True, timeout=900, cwd=self.outdir)
            except (subprocess.TimeoutExpired, FileNotFoundError) as e:
                self.notes.append("apalache %s skipped: %s" % (name, e))
                return
            out = r.stdout
            shutil.rmtree(od, ignore_errors=True)
            self.tlc.append({"name": "apalache:%s:%s" % (module, name), "module": module, "states_generated": 1, "distinct_states": 1, "depth": 0,
                             "cases_emitted": 0, "wall_s": round(time.time() - t0, 1), "coverage": None, "exit": "OK" if "EXITCODE: OK" in out else out[-300:]})
            log("[apalache] %s %s: %s" % (module, name, "OK" if "EXITCODE: OK" in out else "not OK"))
            if "EXITCODE: OK" in out:
                continue
            if "EXITCODE: ERROR (12)" in out or "violat" in out.lower():
                p = os.path.join(self.outdir, "violation_apalache_%s.txt" % name)
                with open(p, "w") as f:
                    f.write(out[-6000:])
                self.violations.append({"prop": self.prop, "replay": p, "summary": "Apalache: %s is not inductive (%s)" % (inv, name)})
            else:
                self.notes.append("apalache %s inconclusive: %s" % (name, out[-300:]))

    def count_nontrivial(self, cases_path, keyfn):
        """keyfn(case) -> hashable key or None (trivial)."""
        with open(cases_path) as f:
            for line in f:
                k = keyfn(json.loads(line))
                if k is not None:
                    self.nontrivial.add(hashlib.md5(json.dumps(k, sort_keys=True).encode()).hexdigest())

    def sample_from(self, cases_path, k=3):
        n = core.count_lines(cases_path)
        if n == 0:
            return
        import random
        rnd = random.Random(self.seed)
        picks = sorted(set(rnd.randrange(n) for _ in range(k)))
        for i in picks:
            self.samples.append(core.read_case(cases_path, i))

    # ---- finish ----------------------------------------------------------------------
    def finish(self, level="model_checking", extra_cov=None):
        states = sum(t["distinct_states"] for t in self.tlc)
        trans = sum(t["states_generated"] for t in self.tlc)
        cov = {
            "states": states,
            "transitions": trans,
            "traces_validated_against_impl": self.cases_replayed + self.traces_validated,
            "samples": self.samples[:6] if self.samples else [{"note": "no sample captured"}],
            "evaluations": self.cases_replayed + self.events_validated,
            "distinct_nontrivial": len(self.nontrivial),
            "rule": self.rule,
            "cases_replayed_against_impl": self.cases_replayed,
            "trace_events_validated_by_tlc": self.events_validated,
            "tlc_runs": self.tlc,
            "replay_runs": self.replays,
            "failures_attributed_to_other_properties": self.other[:20],
            "n_failures_attributed_to_other_properties": len(self.other),
            "known_findings_hit": [k["id"] for k, _ in self.known_hits],
            "notes": self.notes,
        }
        if extra_cov:
            cov.update(extra_cov)
        ev = {
            "property_id": self.prop,
            "tier": self.tier,
            "seed": self.seed,
            "level": level,
            "coverage": cov,
            "assumptions": self.assumptions,
            "wall_s": round(time.time() - self.t0, 1),
            "violations": len(self.violations),
        }
        os.makedirs(core.EVID, exist_ok=True)
        with open(os.path.join(core.EVID, self.prop + ".json"), "w") as f:
            json.dump(ev, f, indent=1)
        seen = set()
        for k, rec in self.known_hits:
            if k["id"] in seen:
                continue
            seen.add(k["id"])
            print("KNOWN-FINDING: property=%s %s" % (self.prop, k.get("what", k["id"])))
        if self.violations:
            shown = set()
            for v in self.violations:
                if v["replay"] in shown:
                    continue
                shown.add(v["replay"])
                print("VIOLATION property=%s replay=%s" % (self.prop, v["replay"]))
                log("   " + v["summary"][:400])
            return 1
        # success: the bulky intermediates (emitted cases, event logs, TLC output) are not needed any more
        for fn in os.listdir(self.outdir):
            fp = os.path.join(self.outdir, fn)
            try:
                if os.path.isfile(fp) and os.path.getsize(fp) > (1 << 20):
                    os.unlink(fp)
            except OSError:
                pass
        print("OK property=%s tier=%s states=%d transitions=%d cases_replayed=%d trace_events=%d wall=%.0fs" % (
            self.prop, self.tier, states, trans, self.cases_replayed, self.events_validated, time.time() - self.t0))
        return 0


def main(argv):
    import props
    if not argv:
        print(__doc__ or "usage: check <id> [--tier quick|thorough] [--replay file]")
        return 2
    prop = argv[0]
    tier = os.environ.get("VERIF_TIER", "quick")
    replay_file = None
    i = 1
    while i < len(argv):
        if argv[i] == "--tier":
            tier = argv[i + 1]; i += 2
        elif argv[i] == "--replay":
            replay_file = argv[i + 1]; i += 2
        else:
            print("unknown argument", argv[i]); return 2
    if tier not in ("quick", "thorough"):
        tier = "quick"
    try:
        seed = int(os.environ.get("VERIF_SEED", "1"))
    except ValueError:
        seed = 1
    seed = abs(seed) % (2 ** 31 - 1000)      # every consumer (TLC -seed, the drivers' u64, Python's Random) accepts this range
    if prop not in props.PIPELINES:
        print("unknown property", prop)
        return 2
    try:
        core.build_harness()
        if replay_file:
            return props.rerun(prop, replay_file)
        ctx = Ctx(prop, tier, seed)
        props.PIPELINES[prop](ctx)
        return ctx.finish()
    except ToolError as e:
        log("TOOL-ERROR: %s" % e)
        return 2
