//! code -> spec drivers: run the REAL crate on seeded random inputs that are larger / longer than
//! what TLC enumerates, and log one event per call for validation against the trace specifications.
//!
//!   drive hist <seed> <histories> <steps> <maxdim> <out.ndjson> [elem|zst]
//!   drive sort <seed> <cases> <out.ndjson>
use serde_json::{json, Value};
use std::io::Write;
use tdverif::cells::{CellT, Elem, Elem40, Elem4K, Tok, Zst, K32, W1K, W24, W4K};
use tdverif::hist::{event, index_args, Machine};
use tdverif::util::{guarded, silence_panics, LenMode};
use toodee::{SortOps, TooDee, TooDeeOps, TooDeeOpsMut};

struct Rng(u64);
impl Rng {
    fn next(&mut self) -> u64 {
        // splitmix64
        self.0 = self.0.wrapping_add(0x9E37_79B9_7F4A_7C15);
        let mut z = self.0;
        z = (z ^ (z >> 30)).wrapping_mul(0xBF58_476D_1CE4_E5B9);
        z = (z ^ (z >> 27)).wrapping_mul(0x94D0_49BB_1331_11EB);
        z ^ (z >> 31)
    }
    fn below(&mut self, n: usize) -> usize {
        if n == 0 { 0 } else { (self.next() % n as u64) as usize }
    }
    fn chance(&mut self, pct: usize) -> bool {
        self.below(100) < pct
    }
}

fn hist<T: CellT + std::hash::Hash>(seed: u64, histories: usize, steps: usize, maxdim: usize, out: &mut impl Write, faults: bool) {
    let mut rng = Rng(seed);
    let noarg = json!({"z": 0});
    for h in 0..histories {
        // progress marker: if the code under test kills the process, the driver knows in which history
        println!("H {h}");
        tdverif::ledger::reset();
        tdverif::canary::reset();
        let mut m: Machine<T> = Machine::new((h % 3) as u8);
        let mut next_id: u32 = 1;
        let mut fresh = |n: usize, next_id: &mut u32| -> Vec<u32> {
            let v: Vec<u32> = (0..n as u32).map(|i| *next_id + i).collect();
            *next_id += n as u32;
            v
        };
        let mut events: Vec<Value> = vec![json!({"ev": "reset", "case": h})];
        let mut emit = |m: &Machine<T>, op: &str, a: &Value, res: &Value, events: &mut Vec<Value>| {
            let mut e = event::<T>(m, op, a, res, None, false, &[], &[]);
            e["case"] = json!(h);
            events.push(e);
        };
        // constructor; one history in four starts from a LARGE array (a long dimension, hundreds to thousands of cells):
        // size-gated code paths ("fast paths" above some length) are invisible on small shapes
        // a few histories per run start from a HUGE array (about 10^5 cells) with spare capacity and begin with the calls
        // whose cost depends on the number of cells behind the touched line: element-COUNT thresholds of "large array"
        // paths (2^16 ...) are out of reach of the large histories below
        let bulky = std::mem::size_of::<T>() >= 1024;      // (page-sized elements: the same byte volumes with far fewer cells)
        // (not in fault mode: after a fault the trace specification compares bags of 10^5 live elements - minutes per event)
        // (exactly three per run, however long the run: each costs TLC tens of seconds)
        let huge = histories >= 100 && (h == 12 || h == 13 || h == 110) && !bulky && !faults;
        let large = huge || rng.chance(25);
        let (nc, nr) = if huge {
            // (a little over 2^20 cells BEHIND a line removed near the front for element types without a ledger entry per
            // element, 10^5 otherwise)
            if T::TRACKED { (262 + rng.below(70), 262 + rng.below(70)) } else { (1040 + rng.below(30), 1040 + rng.below(30)) }
        } else if large {
            let a = 13 + rng.below(118);
            // often only a few lines in the other direction, so that histories reach "last line removed" on long lines
            let b = if rng.chance(45) && !(bulky && T::TRACKED) { 1 + rng.below(3) } else { 1 + rng.below(((if bulky && !T::TRACKED { 700 } else { 2600 }) / a).clamp(1, 40)) };
            // (page-sized drop-tracking elements: always many lines, so that the array is megabytes large)
            let b = if bulky && T::TRACKED { b.max(2200 / a) } else { b };
            if rng.chance(50) { (a, b) } else { (b, a) }
        } else if rng.chance(15) {
            (0, 0)
        } else {
            (1 + rng.below(maxdim), 1 + rng.below(maxdim))
        };
        let maxdim = if huge { 1100 } else if large { 140 } else { maxdim };
        let steps = if huge { steps.min(4) } else if large { steps.min(14) } else { steps };
        let a = json!({"nc": nc, "nr": nr, "items": fresh(nc * nr, &mut next_id)});
        let r = m.call("from_vec", &a, &[nc, nr], LenMode::True);
        emit(&m, "from_vec", &a, &r, &mut events);
        if faults && large && !huge && rng.chance(35) && nr >= 2 {
            // scripted opening of a large history in fault mode: exact capacity, then a row is inserted in the middle by an
            // iterator that panics (or runs short) - a growth path that rebuilds the array elsewhere must stay panic-safe
            let r = m.call("shrink_to_fit", &noarg, &[], LenMode::True);
            emit(&m, "shrink_to_fit", &noarg, &r, &mut events);
            let index = 1 + rng.below(nr - 1);
            let a = json!({"index": index, "items": fresh(nc, &mut next_id)});
            let f = json!({"kind": "panic_at", "site": "next", "k": rng.below(3), "lie": "none"});
            tdverif::fault::arm(tdverif::fault::Site::IterNext, f["k"].as_u64().unwrap() as u32);
            let supplied: Vec<u32> = a["items"].as_array().unwrap().iter().map(|v| v.as_u64().unwrap() as u32).collect();
            m.in_fault = true;
            let r = m.call("insert_row", &a, &[index], LenMode::True);
            m.in_fault = false;
            let fired = tdverif::fault::fired();
            tdverif::fault::disarm();
            let mut e = event::<T>(&m, "insert_row", &a, &r, Some(&f), fired, &[], &supplied);
            e["case"] = json!(h);
            events.push(e);
        }
        if huge {
            // scripted opening: spare capacity for a line, then a line near the front is removed and its drain partly consumed
            let script: Vec<(&str, Value)> = if h % 3 == 0 {
                // no spare capacity: the array has to grow
                vec![("shrink_to_fit", noarg.clone()), ("insert_row", json!({"index": 2 + rng.below(3), "items": fresh(nc, &mut next_id)})),
                     ("shrink_to_fit", noarg.clone()), ("insert_col", json!({"index": 1, "items": fresh(nr + 1, &mut next_id)})),
                     ("remove_row", json!({"index": 1})), ("d_next", noarg.clone()), ("d_drop", noarg.clone())]
            } else if rng.chance(50) {
                vec![("reserve", json!({"k": nc})), ("remove_row", json!({"index": rng.below(3)})), ("d_next", noarg.clone()),
                     ("d_next_back", noarg.clone()), ("d_drop", noarg.clone())]
            } else {
                vec![("reserve", json!({"k": nr})), ("remove_col", json!({"index": rng.below(3)})), ("d_next_back", noarg.clone()),
                     ("d_drop", noarg.clone()), ("insert_row", json!({"index": 1, "items": fresh(nc - 1, &mut next_id)}))]
            };
            for (op, a) in script {
                let conc: Vec<usize> = index_args(op, &a).iter().map(|&v| v as usize).collect();
                let r = m.call(op, &a, &conc, LenMode::True);
                emit(&m, op, &a, &r, &mut events);
            }
        }
        for _ in 0..steps {
            // current dimensions (only readable while no drain is outstanding)
            if !m.handle.is_none() {
                if faults && rng.chance(18) {
                    // C12: leak the drain at this stage of consumption; or C11: a destructor panics while it is dropped
                    let (op, f) = if rng.chance(50) {
                        ("d_forget", json!({"kind": "forget", "site": "none", "k": 0, "lie": "none"}))
                    } else if rng.chance(50) {
                        ("d_drop", json!({"kind": "panic_at", "site": "drop", "k": rng.below(4), "lie": "none"}))
                    } else {
                        (["d_fold", "d_rfold", "d_for_each"][rng.below(3)], json!({"kind": "panic_at", "site": "closure", "k": rng.below(4), "lie": "none"}))
                    };
                    if f["kind"] == "panic_at" {
                        tdverif::fault::arm(tdverif::fault::Site::parse(f["site"].as_str().unwrap()).unwrap(), f["k"].as_u64().unwrap() as u32);
                    }
                    m.in_fault = true;
                    let r = m.call(op, &noarg, &[], LenMode::True);
                    m.in_fault = false;
                    let fired = tdverif::fault::fired();
                    tdverif::fault::disarm();
                    let mut e = event::<T>(&m, op, &noarg, &r, Some(&f), fired, &[], &[]);
                    e["case"] = json!(h);
                    events.push(e);
                    continue;
                }
                let op = ["d_next", "d_next_back", "d_len", "d_drop", "d_drop", "d_nth", "d_nth_back", "d_count", "d_last", "d_collect",
                          "d_rcollect", "d_next", "d_next_back", "d_fold", "d_rfold", "d_for_each", "d_find"][rng.below(17)];
                if op == "d_nth" || op == "d_nth_back" || op == "d_find" {
                    let n = rng.below(4);
                    let a = json!({"n": n});
                    let r = m.call(op, &a, &[n], LenMode::True);
                    emit(&m, op, &a, &r, &mut events);
                    continue;
                }
                let r = m.call(op, &noarg, &[], LenMode::True);
                emit(&m, op, &noarg, &r, &mut events);
                continue;
            }
            let (c, r_) = match m.arr.as_ref() {
                Some(t) => (t.num_cols(), t.num_rows()),
                None => break,
            };
            // an index that is usually valid, sometimes one past / far beyond
            let mut idx = |n: usize, rng: &mut Rng| -> u64 {
                match rng.below(12) {
                    0 => n as u64 + 1,
                    1 => 1_000_001,
                    _ => rng.below(n + 1) as u64,
                }
            };
            // large arrays: structural calls only (that is where size-gated paths live), and shrink as often as grow
            let choice = if large { [0, 2, 4, 5, 6, 6, 7, 7, 8, 8, 9, 9, 13, 30, 30][rng.below(15)] } else { rng.below(22) };
            let (op, a): (&str, Value) = match choice {
                0 | 1 => {
                    let n = if c == 0 { 1 + rng.below(maxdim) } else if rng.chance(8) { c + 1 } else { c };
                    if r_ >= maxdim + 2 { ("pop_row", noarg.clone()) } else { ("insert_row", json!({"index": idx(r_, &mut rng), "items": fresh(n, &mut next_id)})) }
                }
                2 | 3 => {
                    let n = if r_ == 0 { 1 + rng.below(maxdim) } else if rng.chance(8) { r_.saturating_sub(1) } else { r_ };
                    if c >= maxdim + 2 { ("pop_col", noarg.clone()) } else { ("insert_col", json!({"index": idx(c, &mut rng), "items": fresh(n, &mut next_id)})) }
                }
                4 => ("push_row", json!({"items": fresh(if c == 0 { 1 + rng.below(3) } else { c }, &mut next_id)})),
                5 => ("push_col", json!({"items": fresh(if r_ == 0 { 1 + rng.below(3) } else { r_ }, &mut next_id)})),
                6 => ("remove_row", json!({"index": idx(r_.saturating_sub(1), &mut rng)})),
                7 => ("remove_col", json!({"index": idx(c.saturating_sub(1), &mut rng)})),
                8 => ("pop_row", noarg.clone()),
                9 => ("pop_col", noarg.clone()),
                10 => ("swap_rows", json!({"r1": idx(r_.saturating_sub(1), &mut rng), "r2": idx(r_.saturating_sub(1), &mut rng)})),
                11 => ("swap_cols", json!({"c1": idx(c.saturating_sub(1), &mut rng), "c2": idx(c.saturating_sub(1), &mut rng)})),
                12 => ("translate", json!({"mc": rng.below(c + 2) as u64, "mr": rng.below(r_ + 2) as u64})),
                13 => ([("flip_rows"), ("flip_cols"), ("swap_dimensions"), ("shrink_to_fit")][rng.below(4)], noarg.clone()),
                14 => ("sort_by_row", json!({"row": idx(r_.saturating_sub(1), &mut rng)})),
                15 => ("sort_by_col", json!({"col": idx(c.saturating_sub(1), &mut rng)})),
                16 if rng.chance(40) => ("set_flat", json!({"i": idx((c * r_).saturating_sub(1), &mut rng), "via": rng.below(2), "v": fresh(1, &mut next_id)[0]})),
                16 => ("set", json!({"c": idx(c.saturating_sub(1), &mut rng), "r": idx(r_.saturating_sub(1), &mut rng), "v": fresh(1, &mut next_id)[0]})),
                17 => ("swap", json!({"c1": idx(c.saturating_sub(1), &mut rng), "r1": idx(r_.saturating_sub(1), &mut rng),
                                      "c2": idx(c.saturating_sub(1), &mut rng), "r2": idx(r_.saturating_sub(1), &mut rng)})),
                18 => if rng.chance(30) { ("fill", json!({"v": fresh(1, &mut next_id)[0]})) } else { ("reserve", json!({"k": rng.below(9)})) },
                // spare capacity of one or two whole lines (large histories)
                30 => ("reserve", json!({"k": c.max(r_) * (1 + rng.below(2))})),
                19 => if rng.chance(20) { ("clear", noarg.clone()) } else if rng.chance(50) { ("clone", noarg.clone()) } else {
                    let (sc, sr) = if rng.chance(15) { (0, 0) } else { (1 + rng.below(maxdim), 1 + rng.below(maxdim)) };
                    ("clone_from", json!({"nc": sc, "nr": sr, "items": fresh(sc * sr, &mut next_id)}))
                },
                20 => {
                    let (sc, sr) = (rng.below(c + 1), rng.below(r_ + 1));
                    let (ec, er) = (sc + rng.below(c - sc + 1), sr + rng.below(r_ - sr + 1));
                    ("from_view", json!({"s": [sc, sr], "e": [ec, er], "m": rng.below(2)}))
                }
                _ => ("reserve_exact", json!({"k": rng.below(5)})),
            };
            let conc: Vec<usize> = index_args(op, &a).iter().map(|&v| if v > 1_000_000 { usize::MAX } else { v as usize }).collect();
            // C11: now and then caller-supplied code panics (or lies) inside the call
            let fault: Option<(Value, LenMode)> = if faults && rng.chance(12) {
                let nitems = a.get("items").and_then(|v| v.as_array()).map(|v| v.len()).unwrap_or(0);
                match op {
                    "insert_row" | "push_row" | "insert_col" | "push_col" => {
                        let site = if op.ends_with("row") { "next" } else { "next_back" };
                        match rng.below(9) {
                            7 => Some((json!({"kind": "lie", "site": "none", "k": 0, "lie": "flip_down"}), LenMode::FlipDown)),
                            8 => Some((json!({"kind": "lie", "site": "none", "k": 0, "lie": "flip_up"}), LenMode::FlipUp)),
                            6 => Some((json!({"kind": "panic_at", "site": "iter_drop", "k": 0, "lie": "none"}), LenMode::True)),
                            0 => Some((json!({"kind": "panic_at", "site": "len", "k": rng.below(2), "lie": "none"}), LenMode::True)),
                            1 => Some((json!({"kind": "lie", "site": "none", "k": 0, "lie": "minus1"}), LenMode::Minus1)),
                            2 => Some((json!({"kind": "lie", "site": "none", "k": 0, "lie": "plus1"}), LenMode::Plus1)),
                            3 => Some((json!({"kind": "lie", "site": "none", "k": 0, "lie": "max"}), LenMode::Max)),
                            _ => Some((json!({"kind": "panic_at", "site": site, "k": rng.below(nitems + 2), "lie": "none"}), LenMode::True)),
                        }
                    }
                    "fill" => Some((json!({"kind": "panic_at", "site": if rng.chance(50) { "clone" } else { "drop" }, "k": rng.below(c * r_ + 1), "lie": "none"}), LenMode::True)),
                    "clone" | "from_view" => Some((json!({"kind": "panic_at", "site": "clone", "k": rng.below(c * r_ + 1), "lie": "none"}), LenMode::True)),
                    "clone_from" => Some((json!({"kind": "panic_at", "site": if rng.chance(60) { "clone" } else { "drop" }, "k": rng.below(nitems.max(c * r_) + 1), "lie": "none"}), LenMode::True)),
                    "clear" | "set" => Some((json!({"kind": "panic_at", "site": "drop", "k": rng.below(c * r_ + 1), "lie": "none"}), LenMode::True)),
                    "sort_by_row" | "sort_by_col" => Some((json!({"kind": "panic_at", "site": "cmp", "k": rng.below(2 * (c + r_) + 1), "lie": "none"}), LenMode::True)),
                    _ => None,
                }
            } else {
                None
            };
            // an iterator whose announced length is the expected one but which yields one item more ("over") or fewer ("under")
            // than announced: safe caller code; no panic is injected, the library may reject or accept the call - either way
            // the array must stay valid (judged by the relation of C01 / C11 in TooDeeTrace.tla).  In every kind of history.
            let mut a = a;
            let fault = match fault {
                None if matches!(op, "insert_row" | "push_row" | "insert_col" | "push_col") && !large && rng.chance(5) => {
                    let items = a["items"].as_array_mut().unwrap();
                    if rng.chance(60) {
                        items.push(json!(fresh(1, &mut next_id)[0]));
                        Some((json!({"kind": "lie", "site": "none", "k": 0, "lie": "minus1"}), LenMode::Minus1))
                    } else if items.len() >= 2 {
                        items.pop();
                        Some((json!({"kind": "lie", "site": "none", "k": 0, "lie": "plus1"}), LenMode::Plus1))
                    } else {
                        None
                    }
                }
                f => f,
            };
            if let Some((f, mode)) = fault {
                if std::env::var("DRIVE_DEBUG").is_ok() {
                    eprintln!("history {h}: {op} {a} fault {f} dims ({c},{r_})");
                }
                if f["kind"] == "panic_at" {
                    tdverif::fault::arm(tdverif::fault::Site::parse(f["site"].as_str().unwrap()).unwrap(), f["k"].as_u64().unwrap() as u32);
                }
                let supplied: Vec<u32> = a.get("items").and_then(|v| v.as_array()).map(|l| l.iter().map(|x| x.as_u64().unwrap() as u32).collect())
                    .or_else(|| a.get("v").and_then(|v| v.as_u64()).map(|v| vec![v as u32])).unwrap_or_default();
                m.in_fault = true;
                let r = m.call(op, &a, &conc, mode);
                m.in_fault = false;
                let fired = tdverif::fault::fired();
                tdverif::fault::disarm();
                let mut e = event::<T>(&m, op, &a, &r, Some(&f), fired, &[], &supplied);
                e["case"] = json!(h);
                events.push(e);
                continue;
            }
            let r = m.call(op, &a, &conc, LenMode::True);
            emit(&m, op, &a, &r, &mut events);
        }
        // finish: release a drain, then consume the array one way or another
        if !m.handle.is_none() {
            let r = m.call("d_drop", &noarg, &[], LenMode::True);
            emit(&m, "d_drop", &noarg, &r, &mut events);
        }
        if m.arr.is_some() {
            let op = ["drop", "into_vec", "into_box", "into_iter"][rng.below(4)];
            let r = m.call(op, &noarg, &[], LenMode::True);
            emit(&m, op, &noarg, &r, &mut events);
            if op == "into_iter" {
                for _ in 0..rng.below(5) {
                    let o = if rng.chance(50) { "d_next" } else { "d_next_back" };
                    let r = m.call(o, &noarg, &[], LenMode::True);
                    emit(&m, o, &noarg, &r, &mut events);
                }
                let r = m.call("d_drop", &noarg, &[], LenMode::True);
                emit(&m, "d_drop", &noarg, &r, &mut events);
            }
        }
        m.handle = tdverif::hist::Handle::None;
        m.arr = None;
        m.held.clear();
        let live: Vec<u32> = if T::TRACKED {
            tdverif::ledger::live_serials().into_iter().filter(|s| !m.forgiven.contains(s)).filter_map(tdverif::ledger::origin_of).collect()
        } else {
            Vec::new()
        };
        events.push(json!({"ev": "end", "case": h, "live": live, "tracked": T::TRACKED,
                           "dd": tdverif::ledger::double_drops().len() as u64 + tdverif::ledger::garbage_drops() as u64,
                           "redzone_ok": !tdverif::canary::damaged()}));
        for e in events {
            writeln!(out, "{}", e).unwrap();
        }
        out.flush().unwrap();
    }
}

/// Large sorts: the standard library's small-slice sorts are insertion sorts (stable in effect), so
/// the stability clause of C16 / C17 is only falsifiable on long key lines.
fn sort(seed: u64, cases: usize, out: &mut impl Write) {
    let mut rng = Rng(seed);
    for case in 0..cases {
        // two MEGA lines per run (one by column, one by row): beyond 2^18 entries - element-COUNT
        // thresholds of "large array" paths; always stable variants (THE result is defined, and checkable in linear time),
        // always through a window narrower than its parent
        let mega = case == 3 || case == 7;
        let by_row = if mega { case == 7 } else { rng.chance(50) };
        // mostly 24..163; sometimes the gap 5..23 below it; sometimes thousands (swap traces beyond any small buffer)
        let huge = mega || rng.chance(8);
        let long = if mega { (1 << 18) + 17 + rng.below(3000) }
                   else if huge { 1026 + rng.below(1500) } else if rng.chance(15) { 5 + rng.below(19) } else { 24 + rng.below(140) };
        let short = if mega { 2 } else { 1 + rng.below(if huge { 5 } else { 3 }) };
        let (nc, nr) = if by_row { (long, short) } else { (short, long) };
        // the receiver sits inside a parent with a margin (stride > width) two times out of three
        let (mc, mr) = if mega { (1, 0) } else if rng.chance(66) { (1 + rng.below(2), rng.below(2)) } else { (0, 0) };
        let (pc, pr) = (nc + 2 * mc, nr + 2 * mr);
        let line = rng.below(if by_row { nr } else { nc });
        let stable = huge || rng.chance(60);
        let form = ["cmp", "key", "ord", "skey", "bkey"][rng.below(5)];
        if !by_row && !stable && form == "ord" {
            continue; // no such variant
        }
        let nkeys = 2 + rng.below(2);
        let mut ids: Vec<u32> = (0..(pc * pr) as u32).map(|i| 3 * (i + 1) + rng.below(nkeys) as u32).collect();
        // structured key lines: adaptive sorts / "already sorted" shortcuts behave differently on them
        let pattern = rng.below(8);
        if pattern >= 3 {
            let n = if by_row { nc } else { nr };
            let mut keys: Vec<u32> = (0..n).map(|i| ((i * 3) / n.max(1)) as u32).collect(); // non-decreasing 0..2
            match pattern {
                3 => {}
                4 => keys.reverse(),
                5 => { let k = rng.below(3) as u32; if let Some(l) = keys.last_mut() { *l = k; } }          // sorted prefix + one appended
                6 => { for _ in 0..(1 + rng.below(3)) { let (a, b) = (rng.below(n), rng.below(n)); keys.swap(a, b); } } // nearly sorted
                _ => { for k in keys.iter_mut() { *k = 1; } }                                              // all equal
            }
            for i in 0..n {
                let (x, y) = if by_row { (mc + i, mr + line) } else { (mc + line, mr + i) };
                let idx = y * pc + x;
                ids[idx] = ids[idx] / 3 * 3 + keys[i];
            }
        }
        let mut parent: TooDee<K32> = TooDee::from_vec(pc, pr, ids.iter().map(|&i| K32(i)).collect());
        let before_parent: Vec<u32> = parent.data().iter().map(|e| e.0).collect();
        let window = |t: &TooDee<K32>| -> Vec<u32> {
            let v = t.view((mc, mr), (mc + nc, mr + nr));
            v.cells().map(|e| e.0).collect()
        };
        let before = window(&parent);
        let res = guarded(|| {
            macro_rules! go {
                ($r:expr) => {{
                    let r = $r;
                    match (by_row, stable, form) {
                        (true, true, "cmp") => r.sort_by_row(line, |x, y| x.key().cmp(&y.key())),
                        (true, false, "cmp") => r.sort_unstable_by_row(line, |x, y| x.key().cmp(&y.key())),
                        (true, true, "skey") => r.sort_by_row_key(line, |x| format!("{:010}", x.key())),
                        (true, false, "skey") => r.sort_unstable_by_row_key(line, |x| format!("{:010}", x.key())),
                        (false, true, "skey") => r.sort_by_col_key(line, |x| format!("{:010}", x.key())),
                        (false, false, "skey") => r.sort_unstable_by_col_key(line, |x| format!("{:010}", x.key())),
                        (true, true, "bkey") => r.sort_by_row_key(line, |x| x.key() as u8),
                        (true, false, "bkey") => r.sort_unstable_by_row_key(line, |x| x.key() as u8),
                        (false, true, "bkey") => r.sort_by_col_key(line, |x| x.key() as u8),
                        (false, false, "bkey") => r.sort_unstable_by_col_key(line, |x| x.key() as u8),
                        (true, true, "key") => r.sort_by_row_key(line, |x| x.key()),
                        (true, false, "key") => r.sort_unstable_by_row_key(line, |x| x.key()),
                        (true, true, _) => r.sort_row_ord::<()>(line),
                        (true, false, _) => r.sort_unstable_row_ord::<()>(line),
                        (false, true, "cmp") => r.sort_by_col(line, |x, y| x.key().cmp(&y.key())),
                        (false, false, "cmp") => r.sort_unstable_by_col(line, |x, y| x.key().cmp(&y.key())),
                        (false, true, "key") => r.sort_by_col_key(line, |x| x.key()),
                        (false, false, _) => r.sort_unstable_by_col_key(line, |x| x.key()),
                        (false, true, _) => r.sort_col_ord::<()>(line),
                    }
                }};
            }
            if mc == 0 && mr == 0 && rng.chance(50) {
                go!(&mut parent)
            } else {
                let mut v = parent.view_mut((mc, mr), (mc + nc, mr + nr));
                go!(&mut v)
            }
        });
        let after = window(&parent);
        // frame: cells of the parent outside the window
        let mut outside_ok = true;
        for y in 0..pr {
            for x in 0..pc {
                let inside = x >= mc && x < mc + nc && y >= mr && y < mr + nr;
                if !inside && parent[(x, y)].0 != before_parent[y * pc + x] {
                    outside_ok = false;
                }
            }
        }
        let e = json!({"ev": "sort", "case": case, "by": if by_row { "row" } else { "col" }, "stable": stable, "form": form, "line": line,
                       "nc": nc, "nr": nr, "before": before, "after": after, "outside_ok": outside_ok,
                       "res": if res.is_ok() { "unit" } else { "panic" }});
        writeln!(out, "{}", e).unwrap();
    }
}

fn main() {
    let args: Vec<String> = std::env::args().collect();
    silence_panics();
    match args[1].as_str() {
        "hist" => {
            let seed: u64 = args[2].parse().unwrap();
            let histories: usize = args[3].parse().unwrap();
            let steps: usize = args[4].parse().unwrap();
            let maxdim: usize = args[5].parse().unwrap();
            let mut out = std::io::BufWriter::new(std::fs::File::create(&args[6]).unwrap());
            let faults = args.get(8).map(|s| s == "faults").unwrap_or(false);
            match args.get(7).map(|s| s.as_str()).unwrap_or("elem") {
                "zst" => hist::<Zst>(seed, histories, steps, maxdim, &mut out, faults),
                "tok" => hist::<Tok>(seed, histories, steps, maxdim, &mut out, faults),
                "w1k" => hist::<W1K>(seed, histories, steps, maxdim, &mut out, faults),
                "w4k" => hist::<W4K>(seed, histories, steps, maxdim, &mut out, faults),
                "w24" => hist::<W24>(seed, histories, steps, maxdim, &mut out, faults),
                "elem40" => hist::<Elem40>(seed, histories, steps, maxdim, &mut out, faults),
                "elem4k" => hist::<Elem4K>(seed, histories, steps, maxdim, &mut out, faults),
                "u32" => hist::<K32>(seed, histories, steps, maxdim, &mut out, faults),
                _ => hist::<Elem>(seed, histories, steps, maxdim, &mut out, faults),
            }
        }
        "sort" => {
            let seed: u64 = args[2].parse().unwrap();
            let cases: usize = args[3].parse().unwrap();
            let mut out = std::io::BufWriter::new(std::fs::File::create(&args[4]).unwrap());
            sort(seed, cases, &mut out);
        }
        m => panic!("unknown mode {m}"),
    }
}
