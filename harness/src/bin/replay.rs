//! spec -> code replay: executes TLC-emitted cases against the real crate.
//!
//! usage: replay <cases.ndjson> [--elem elem|u32|zst] [--cap 0|1|2] [--from N]
//! stdout protocol (one line each): `S <n>` before case n (0-based line number) is run,
//! `F <json>` for a case that does not conform, `DONE <cases> <failed>` at the end.
use serde_json::Value;
use std::io::{BufRead, Write};
use tdverif::cells::{Elem, Elem40, Elem4K, Elem8, Tok, Zst, A128, B1, B3, K32, W1K, W1M, W24, W4K, W64K, W8, W80, Z0};
use tdverif::util::silence_panics;

fn main() {
    // Everything runs on a thread with the DEFAULT stack size of spawned threads (2 MiB) - the size library users' worker and
    // test threads have - rather than on the main thread's 8 MiB: a stack frame that grows with the element size is then an
    // observable crash, as it is for them.
    // (mebibyte elements: the harness's own by-value moves of an element need more than that)
    let big = std::env::args().any(|a| a == "w1m");
    let h = std::thread::Builder::new().stack_size(if big { 64 << 20 } else { 2 << 20 }).spawn(real_main).expect("spawn");
    if h.join().is_err() {
        std::process::exit(101);
    }
}

fn real_main() {
    let args: Vec<String> = std::env::args().collect();
    let path = &args[1];
    let mut elem = "elem".to_string();
    let mut cap = 0u8;
    let mut from = 0usize;
    let mut logpath: Option<String> = None;
    let mut i = 2;
    while i < args.len() {
        match args[i].as_str() {
            "--elem" => { elem = args[i + 1].clone(); i += 2; }
            "--cap" => { cap = args[i + 1].parse().unwrap(); i += 2; }
            "--from" => { from = args[i + 1].parse().unwrap(); i += 2; }
            "--log" => { logpath = Some(args[i + 1].clone()); i += 2; }
            x => panic!("unknown argument {x}"),
        }
    }
    if std::env::var("VERIF_LOUD").is_err() { silence_panics(); }
    let f = std::fs::File::open(path).expect("cases file");
    let out = std::io::stdout();
    let mut out = std::io::BufWriter::new(out.lock());
    let mut logfile = logpath.map(|p| std::io::BufWriter::new(std::fs::OpenOptions::new().create(true).append(true).open(p).expect("log file")));
    let mut n = 0usize;
    let mut failed = 0usize;
    let mut skipped = 0usize;
    for (ln, line) in std::io::BufReader::new(f).lines().enumerate() {
        if ln < from {
            continue;
        }
        let line = line.unwrap();
        if line.is_empty() {
            continue;
        }
        let case: Value = serde_json::from_str(&line).expect("case json");
        writeln!(out, "S {ln}").unwrap();
        out.flush().unwrap();
        let fam = case["fam"].as_str().unwrap_or("hist");
        let fails = match fam {
            "hist" => {
                let steps = case["steps"].as_array().unwrap();
                let mut events: Vec<Value> = Vec::new();
                let f = match elem.as_str() {
                    "elem" => tdverif::hist::run_case::<Elem>(steps, cap, &mut events),
                    "u32" => tdverif::hist::run_case::<K32>(steps, cap, &mut events),
                    "b3" => tdverif::hist::run_case::<B3>(steps, cap, &mut events),
                    "zst" => tdverif::hist::run_case::<Zst>(steps, cap, &mut events),
                    "tok" => tdverif::hist::run_case::<Tok>(steps, cap, &mut events),
                    "w1k" => tdverif::hist::run_case::<W1K>(steps, cap, &mut events),
                    "w4k" => tdverif::hist::run_case::<W4K>(steps, cap, &mut events),
                    "w64k" => tdverif::hist::run_case::<W64K>(steps, cap, &mut events),
                    "w8" => tdverif::hist::run_case::<W8>(steps, cap, &mut events),
                    "w24" => tdverif::hist::run_case::<W24>(steps, cap, &mut events),
                    "elem40" => tdverif::hist::run_case::<Elem40>(steps, cap, &mut events),
                    "elem8" => tdverif::hist::run_case::<Elem8>(steps, cap, &mut events),
                    "elem4k" => tdverif::hist::run_case::<Elem4K>(steps, cap, &mut events),
                    e => panic!("unknown elem {e}"),
                };
                if let Some(lf) = logfile.as_mut() {
                    for mut e in events {
                        e["case"] = serde_json::json!(ln);
                        writeln!(lf, "{}", e).unwrap();
                    }
                    lf.flush().unwrap();
                }
                f
            }
            "acc" => {
                let mut events: Vec<Value> = Vec::new();
                let o = match elem.as_str() {
                    "elem" => tdverif::acc::run_case::<Elem>(&case, &mut events),
                    "u32" => tdverif::acc::run_case::<K32>(&case, &mut events),
                    "b3" => tdverif::acc::run_case::<B3>(&case, &mut events),
                    "b1" => tdverif::acc::run_case::<B1>(&case, &mut events),
                    "w80" => tdverif::acc::run_case::<W80>(&case, &mut events),
                    "w1k" => tdverif::acc::run_case::<W1K>(&case, &mut events),
                    "w4k" => tdverif::acc::run_case::<W4K>(&case, &mut events),
                    "w1m" => tdverif::acc::run_case::<W1M>(&case, &mut events),
                    "w8" => tdverif::acc::run_case::<W8>(&case, &mut events),
                    "w24" => tdverif::acc::run_case::<W24>(&case, &mut events),
                    "elem40" => tdverif::acc::run_case::<Elem40>(&case, &mut events),
                    "elem8" => tdverif::acc::run_case::<Elem8>(&case, &mut events),
                    "z0" => tdverif::acc::run_case::<Z0>(&case, &mut events),
                    "a128" => tdverif::acc::run_case::<A128>(&case, &mut events),
                    "zst" => tdverif::acc::run_case::<Zst>(&case, &mut events),
                    e => panic!("unknown elem {e}"),
                };
                if let Some(lf) = logfile.as_mut() {
                    for mut e in events {
                        e["case"] = serde_json::json!(ln);
                        writeln!(lf, "{}", e).unwrap();
                    }
                    lf.flush().unwrap();
                }
                match o {
                    tdverif::acc::Outcome::Skipped => {
                        skipped += 1;
                        continue;
                    }
                    tdverif::acc::Outcome::Done(f) => f,
                }
            }
            "iter" => {
                let mut events: Vec<Value> = Vec::new();
                let f = match elem.as_str() {
                    "elem" => tdverif::iter::run_case::<Elem>(&case, &mut events),
                    "u32" => tdverif::iter::run_case::<K32>(&case, &mut events),
                    "b3" => tdverif::iter::run_case::<B3>(&case, &mut events),
                    "zst" => tdverif::iter::run_case::<Zst>(&case, &mut events),
                    e => panic!("unknown elem {e}"),
                };
                if let Some(lf) = logfile.as_mut() {
                    for mut e in events {
                        e["case"] = serde_json::json!(ln);
                        writeln!(lf, "{}", e).unwrap();
                    }
                    lf.flush().unwrap();
                }
                f
            }
            "serde" => tdverif::serdefam::run_case(&case),
            "giant" => tdverif::giant::run_case(&case),
            "ctor" => match elem.as_str() {
                "elem" => tdverif::ctor::run_case::<Elem>(&case),
                "u32" => tdverif::ctor::run_case::<K32>(&case),
                "zst" => tdverif::ctor::run_case::<Zst>(&case),
                "w4k" => tdverif::ctor::run_case::<W4K>(&case),
                "w24" => tdverif::ctor::run_case::<W24>(&case),
                e => panic!("unknown elem {e}"),
            },
            f => panic!("unknown family {f}"),
        };
        n += 1;
        if !fails.is_empty() {
            failed += 1;
            let fj: Vec<Value> = fails.iter().map(|f| f.to_json()).collect();
            writeln!(out, "F {}", serde_json::json!({"case": ln, "elem": elem, "cap": cap, "fails": fj})).unwrap();
        }
    }
    writeln!(out, "DONE {n} {failed} {skipped}").unwrap();
    out.flush().unwrap();
}
