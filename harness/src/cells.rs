//! Element types used to drive the implementation.
//!
//! * `Elem` - owns an identity: serial number (unique per object, clones get a fresh one) and
//!   origin (the specification's cell value; clones keep it).  Its destructor writes to the
//!   ledger.  Ordering is by `key = origin % 3` only, so ties are distinguishable by origin and
//!   stability of a sort is observable.
//! * `u32` - `Copy` element, value = origin.
//! * `Zst` - zero-sized element with a counting destructor.
use crate::fault::{self, Site};
use crate::ledger;
use std::cmp::Ordering;

pub const MAGIC: u32 = 0x7D0D_EE01;

/// `P` extra words of padding: `Elem` = 16 bytes, `Elem40` = 40 bytes (drop glue AND wider than two words - size-gated
/// destructor paths treat the two differently).
pub struct ElemP<const P: usize> {
    pub serial: u64,
    pub origin: u32,
    pub magic: u32,
    pub pad: [u64; P],
}
pub type Elem = ElemP<0>;
pub type Elem40 = ElemP<3>;
/// a page-sized drop-tracking element: a couple of thousand cells are 8 MiB and more
pub type Elem4K = ElemP<512>;

/// A WORD-sized drop-tracking element (the layout class of Box / Rc / Arc handles): 8 bytes, serial in 32 bits, origin
/// and a check value in 16 bits each.  Only for cases whose ids fit 16 bits (the TLC-emitted small cases).
pub struct Elem8 {
    pub serial: u32,
    pub origin: u16,
    pub magic: u16,
}
impl Elem8 {
    pub fn new(origin: u32) -> Elem8 {
        Elem8 { serial: ledger::create(origin) as u32, origin: origin as u16, magic: 0x7D0D }
    }
}
impl Clone for Elem8 {
    fn clone(&self) -> Elem8 {
        fault::tick(Site::Clone);
        Elem8::new(self.origin as u32)
    }
}
impl Default for Elem8 {
    fn default() -> Elem8 {
        fault::tick(Site::Default);
        Elem8::new(0)
    }
}
impl Drop for Elem8 {
    fn drop(&mut self) {
        ledger::on_drop(self.serial as u64, self.magic == 0x7D0D);
        if !std::thread::panicking() {
            fault::tick(Site::Drop);
        }
    }
}
impl PartialEq for Elem8 {
    fn eq(&self, o: &Elem8) -> bool {
        self.origin == o.origin
    }
}
impl Eq for Elem8 {}
impl std::hash::Hash for Elem8 {
    fn hash<H: std::hash::Hasher>(&self, h: &mut H) {
        self.origin.hash(h)
    }
}
impl PartialOrd for Elem8 {
    fn partial_cmp(&self, o: &Elem8) -> Option<Ordering> {
        Some(self.cmp(o))
    }
}
impl Ord for Elem8 {
    fn cmp(&self, o: &Elem8) -> Ordering {
        fault::tick(Site::Cmp);
        (self.origin % 3).cmp(&(o.origin % 3))
    }
}
impl std::fmt::Debug for Elem8 {
    fn fmt(&self, f: &mut std::fmt::Formatter<'_>) -> std::fmt::Result {
        write!(f, "e{}#{}", self.origin, self.serial)
    }
}

/// A one-byte Copy element whose equality and hash are SEMANTIC (case-insensitive letters): equal values have different
/// bytes, so hashing the representation instead of the value breaks "equal arrays hash equally".
#[derive(Clone, Copy, Debug, Default)]
pub struct Ci8(pub u8);
impl PartialEq for Ci8 {
    fn eq(&self, o: &Ci8) -> bool {
        self.0.to_ascii_lowercase() == o.0.to_ascii_lowercase()
    }
}
impl Eq for Ci8 {}
impl std::hash::Hash for Ci8 {
    fn hash<H: std::hash::Hasher>(&self, h: &mut H) {
        self.0.to_ascii_lowercase().hash(h)
    }
}

impl<const P: usize> ElemP<P> {
    pub fn new(origin: u32) -> Self {
        ElemP { serial: ledger::create(origin), origin, magic: MAGIC, pad: [origin as u64 ^ 0x5A5A_5A5A; P] }
    }
}

impl<const P: usize> Clone for ElemP<P> {
    fn clone(&self) -> Self {
        fault::tick(Site::Clone);
        ElemP::new(self.origin)
    }
}

impl<const P: usize> Default for ElemP<P> {
    fn default() -> Self {
        fault::tick(Site::Default);
        ElemP::new(0)
    }
}

impl<const P: usize> Drop for ElemP<P> {
    fn drop(&mut self) {
        ledger::on_drop(self.serial, self.magic == MAGIC);
        // a destructor that panics while another panic is unwinding aborts the process by language rule;
        // that is not an observation about the library, so the injected fault never fires in that situation
        if !std::thread::panicking() {
            fault::tick(Site::Drop);
        }
    }
}

/// (reloading an array of resource-owning elements: Deserialize::deserialize_in_place drops the old ones - caller code)
impl<'de> serde::Deserialize<'de> for Elem {
    fn deserialize<D: serde::Deserializer<'de>>(d: D) -> Result<Elem, D::Error> {
        u32::deserialize(d).map(Elem::new)
    }
}

impl<const P: usize> PartialEq for ElemP<P> {
    fn eq(&self, o: &Self) -> bool {
        self.origin == o.origin
    }
}
impl<const P: usize> Eq for ElemP<P> {}
impl<const P: usize> std::hash::Hash for ElemP<P> {
    fn hash<H: std::hash::Hasher>(&self, h: &mut H) {
        self.origin.hash(h)
    }
}
impl<const P: usize> PartialOrd for ElemP<P> {
    fn partial_cmp(&self, o: &Self) -> Option<Ordering> {
        Some(self.cmp(o))
    }
}
impl<const P: usize> Ord for ElemP<P> {
    fn cmp(&self, o: &Self) -> Ordering {
        fault::tick(Site::Cmp);
        (self.origin % 3).cmp(&(o.origin % 3))
    }
}
impl<const P: usize> std::fmt::Debug for ElemP<P> {
    fn fmt(&self, f: &mut std::fmt::Formatter<'_>) -> std::fmt::Result {
        write!(f, "E{}#{}", self.origin, self.serial)
    }
}

/// A `Copy` element ordered by `value % 3` (so that the same specification ordering applies).
#[derive(Clone, Copy, PartialEq, Eq, Hash, Debug, Default)]
pub struct K32(pub u32);
impl PartialOrd for K32 {
    fn partial_cmp(&self, o: &K32) -> Option<Ordering> {
        Some(self.cmp(o))
    }
}
impl Ord for K32 {
    fn cmp(&self, o: &K32) -> Ordering {
        (self.0 % 3).cmp(&(o.0 % 3))
    }
}

/// A `Copy` element whose size (3 bytes, alignment 1) is not a power of two: word-at-a-time "fast paths" that
/// assume the element size divides the word size tear such elements.  Holds a 24-bit origin; ordered like `K32`.
#[derive(Clone, Copy, PartialEq, Eq, Hash, Debug, Default)]
pub struct B3(pub [u8; 3]);
impl B3 {
    pub fn get(&self) -> u32 {
        self.0[0] as u32 | (self.0[1] as u32) << 8 | (self.0[2] as u32) << 16
    }
}
impl PartialOrd for B3 {
    fn partial_cmp(&self, o: &B3) -> Option<Ordering> {
        Some(self.cmp(o))
    }
}
impl Ord for B3 {
    fn cmp(&self, o: &B3) -> Ordering {
        (self.get() % 3).cmp(&(o.get() % 3))
    }
}

/// A `Copy` element of exactly `N` bytes (alignment 1).  The origin sits in the first min(N, 4) bytes, the rest is a
/// pattern derived from it, so an element assembled from pieces of two elements ("torn") is recognisable.
/// `Blob<1>` (one byte: memset-style fast paths) and `Blob<80>` (wider than a cache line: "large element" paths).
#[derive(Clone, Copy, PartialEq, Eq, Hash, Debug)]
pub struct Blob<const N: usize>(pub [u8; N]);
impl<const N: usize> Default for Blob<N> {
    fn default() -> Self {
        Blob::of(0)
    }
}
impl<const N: usize> Blob<N> {
    pub fn of(origin: u32) -> Self {
        let mut b = [0u8; N];
        for (i, x) in b.iter_mut().enumerate() {
            *x = if i < 4 { (origin >> (8 * i)) as u8 } else { (origin as u8).wrapping_mul(31).wrapping_add(i as u8) };
        }
        Blob(b)
    }
    pub fn get(&self) -> u32 {
        let mut o = 0u32;
        for i in 0..N.min(4) {
            o |= (self.0[i] as u32) << (8 * i);
        }
        if *self == Blob::<N>::of(o) { o } else { 0x7EA2_0000 | (o & 0xFFFF) }     // torn
    }
}
impl<const N: usize> PartialOrd for Blob<N> {
    fn partial_cmp(&self, o: &Self) -> Option<Ordering> {
        Some(self.cmp(o))
    }
}
impl<const N: usize> Ord for Blob<N> {
    fn cmp(&self, o: &Self) -> Ordering {
        (self.get() % 3).cmp(&(o.get() % 3))
    }
}
pub type B1 = Blob<1>;
pub type W80 = Blob<80>;
/// one KiB per element: a few hundred cells already cross every byte-size threshold up to the cache sizes
pub type W1K = Blob<1024>;
/// one page per element (element-SIZE thresholds such as size_of::<T>() >= 4096)
pub type W4K = Blob<4104>;      // (just above the page size: `> 4096` and `>= 4096` gates alike)
/// a 64 KiB tile: element-size-proportional stack buffers overflow, byte thresholds in the 10^5 range are crossed by 2 cells
pub type W64K = Blob<65544>;
/// a mebibyte per element (replayed on a larger harness stack: the harness itself moves elements by value)
pub type W1M = Blob<1048584>;

/// `N` machine words, alignment 8 (u64 / f64 / pointer-like layouts; an ODD number of words is what block-wise moves of
/// two words at a time forget).  The origin is the first word, the others repeat a pattern derived from it.
#[derive(Clone, Copy, PartialEq, Eq, Hash, Debug)]
pub struct Words<const N: usize>(pub [u64; N]);
impl<const N: usize> Default for Words<N> {
    fn default() -> Self {
        Words::of(0)
    }
}
impl<const N: usize> Words<N> {
    pub fn of(origin: u32) -> Self {
        let mut w = [0u64; N];
        for (i, x) in w.iter_mut().enumerate() {
            *x = if i == 0 { origin as u64 } else { (origin as u64).wrapping_mul(0x9E37_79B9_7F4A_7C15) ^ i as u64 };
        }
        Words(w)
    }
    pub fn get(&self) -> u32 {
        let o = self.0[0] as u32;
        if self.0[0] <= u32::MAX as u64 && *self == Words::<N>::of(o) { o } else { 0x7EA2_0000 | (o & 0xFFFF) }
    }
}
impl<const N: usize> PartialOrd for Words<N> {
    fn partial_cmp(&self, o: &Self) -> Option<Ordering> {
        Some(self.cmp(o))
    }
}
impl<const N: usize> Ord for Words<N> {
    fn cmp(&self, o: &Self) -> Ordering {
        (self.get() % 3).cmp(&(o.get() % 3))
    }
}
pub type W8 = Words<1>;
pub type W24 = Words<3>;

/// A zero-sized `Copy` element (like `()`): the Copy-only operations exist for it, nothing is ever dropped.
#[derive(Clone, Copy, PartialEq, Eq, Hash, Debug, Default, PartialOrd, Ord)]
pub struct Z0;

/// An over-aligned `Copy` element (alignment 128): scratch buffers typed as bytes or words are misaligned for it.
#[derive(Clone, Copy, PartialEq, Eq, Hash, Debug, Default)]
#[repr(align(128))]
pub struct A128(pub u32);
impl PartialOrd for A128 {
    fn partial_cmp(&self, o: &Self) -> Option<Ordering> {
        Some(self.cmp(o))
    }
}
impl Ord for A128 {
    fn cmp(&self, o: &Self) -> Ordering {
        (self.0 % 3).cmp(&(o.0 % 3))
    }
}

/// A move-only element WITHOUT drop glue (`mem::needs_drop::<Tok>()` is false): it cannot be dropped twice, but it can
/// still be *duplicated* - two owners of one value, which for `&mut U` or a linear token is unsound.  Identity = serial
/// (unique per object, clones get a fresh one), so duplicates are observable although nothing is recorded on drop.
pub struct Tok {
    pub serial: u64,
    pub origin: u32,
}
static TOK_SERIAL: std::sync::atomic::AtomicU64 = std::sync::atomic::AtomicU64::new(1);
impl Tok {
    pub fn new(origin: u32) -> Tok {
        Tok { serial: TOK_SERIAL.fetch_add(1, std::sync::atomic::Ordering::Relaxed), origin }
    }
}
impl Clone for Tok {
    fn clone(&self) -> Tok {
        fault::tick(Site::Clone);
        Tok::new(self.origin)
    }
}
impl Default for Tok {
    fn default() -> Tok {
        fault::tick(Site::Default);
        Tok::new(0)
    }
}
impl PartialEq for Tok {
    fn eq(&self, o: &Tok) -> bool {
        self.origin == o.origin
    }
}
impl Eq for Tok {}
impl std::hash::Hash for Tok {
    fn hash<H: std::hash::Hasher>(&self, h: &mut H) {
        self.origin.hash(h)
    }
}
impl PartialOrd for Tok {
    fn partial_cmp(&self, o: &Tok) -> Option<Ordering> {
        Some(self.cmp(o))
    }
}
impl Ord for Tok {
    fn cmp(&self, o: &Tok) -> Ordering {
        fault::tick(Site::Cmp);
        (self.origin % 3).cmp(&(o.origin % 3))
    }
}
impl std::fmt::Debug for Tok {
    fn fmt(&self, f: &mut std::fmt::Formatter<'_>) -> std::fmt::Result {
        write!(f, "T{}#{}", self.origin, self.serial)
    }
}

#[derive(Debug)]
pub struct Zst;
impl Zst {
    pub fn new() -> Zst {
        ledger::zst_create();
        Zst
    }
}
impl Default for Zst {
    fn default() -> Zst {
        Zst::new()
    }
}
impl Clone for Zst {
    fn clone(&self) -> Zst {
        Zst::new()
    }
}
impl Drop for Zst {
    fn drop(&mut self) {
        ledger::zst_drop();
    }
}
impl PartialEq for Zst {
    fn eq(&self, _: &Zst) -> bool {
        true
    }
}
impl Eq for Zst {}
impl std::hash::Hash for Zst {
    fn hash<H: std::hash::Hasher>(&self, _: &mut H) {}
}
impl PartialOrd for Zst {
    fn partial_cmp(&self, o: &Zst) -> Option<Ordering> {
        Some(self.cmp(o))
    }
}
impl Ord for Zst {
    fn cmp(&self, _: &Zst) -> Ordering {
        Ordering::Equal
    }
}

/// What the interpreter needs from an element type.
pub trait CellT: Sized + Clone + Default + Ord + std::fmt::Debug + 'static {
    const KIND: &'static str;
    /// data comparisons are meaningful (false for `Zst`)
    const HAS_VALUE: bool = true;
    /// the type has identity tracked in the ledger
    const TRACKED: bool = false;
    /// the largest origin the type can hold (cases with larger values are skipped for it)
    const MAX_ORIGIN: u32 = u32::MAX;
    /// `serial()` identifies the object (two cells with one serial = one element owned twice)
    const HAS_SERIAL: bool = false;
    fn make(origin: u32) -> Self;
    fn origin(&self) -> u32;
    fn serial(&self) -> u64 {
        0
    }
    fn magic_ok(&self) -> bool {
        true
    }
    fn key(&self) -> u32 {
        self.origin() % 3
    }
    // the `Copy`-only operations exist only for element types that are `Copy`; `false` = not available
    fn copy_from_slice_on<R: toodee::CopyOps<Self>>(_r: &mut R, _src: &[Self]) -> bool {
        false
    }
    fn copy_from_toodee_on<R: toodee::CopyOps<Self>, S: toodee::TooDeeOps<Self>>(_r: &mut R, _s: &S) -> bool {
        false
    }
    fn copy_within_on<R: toodee::CopyOps<Self>>(_r: &mut R, _src: ((usize, usize), (usize, usize)), _d: (usize, usize)) -> bool {
        false
    }
}

impl CellT for Tok {
    const KIND: &'static str = "tok";
    const HAS_SERIAL: bool = true;
    fn make(origin: u32) -> Tok {
        Tok::new(origin)
    }
    fn origin(&self) -> u32 {
        self.origin
    }
    fn serial(&self) -> u64 {
        self.serial
    }
}

impl<const P: usize> CellT for ElemP<P> {
    const KIND: &'static str = "elem";
    const TRACKED: bool = true;
    const HAS_SERIAL: bool = true;
    fn make(origin: u32) -> Self {
        ElemP::new(origin)
    }
    fn origin(&self) -> u32 {
        self.origin
    }
    fn serial(&self) -> u64 {
        self.serial
    }
    fn magic_ok(&self) -> bool {
        self.magic == MAGIC && self.pad.iter().all(|&w| w == self.origin as u64 ^ 0x5A5A_5A5A)
    }
}

impl CellT for Elem8 {
    const KIND: &'static str = "elem8";
    const TRACKED: bool = true;
    const HAS_SERIAL: bool = true;
    const MAX_ORIGIN: u32 = 65535;
    fn make(origin: u32) -> Elem8 {
        Elem8::new(origin)
    }
    fn origin(&self) -> u32 {
        self.origin as u32
    }
    fn serial(&self) -> u64 {
        self.serial as u64
    }
    fn magic_ok(&self) -> bool {
        self.magic == 0x7D0D
    }
}

impl CellT for K32 {
    const KIND: &'static str = "u32";
    fn make(origin: u32) -> K32 {
        K32(origin)
    }
    fn origin(&self) -> u32 {
        self.0
    }
    fn copy_from_slice_on<R: toodee::CopyOps<Self>>(r: &mut R, src: &[Self]) -> bool {
        r.copy_from_slice(src);
        true
    }
    fn copy_from_toodee_on<R: toodee::CopyOps<Self>, S: toodee::TooDeeOps<Self>>(r: &mut R, s: &S) -> bool {
        r.copy_from_toodee(s);
        true
    }
    fn copy_within_on<R: toodee::CopyOps<Self>>(r: &mut R, src: ((usize, usize), (usize, usize)), d: (usize, usize)) -> bool {
        r.copy_within(src, d);
        true
    }
}

impl CellT for B3 {
    const KIND: &'static str = "b3";
    fn make(origin: u32) -> B3 {
        B3([origin as u8, (origin >> 8) as u8, (origin >> 16) as u8])
    }
    fn origin(&self) -> u32 {
        self.get()
    }
    fn copy_from_slice_on<R: toodee::CopyOps<Self>>(r: &mut R, src: &[Self]) -> bool {
        r.copy_from_slice(src);
        true
    }
    fn copy_from_toodee_on<R: toodee::CopyOps<Self>, S: toodee::TooDeeOps<Self>>(r: &mut R, s: &S) -> bool {
        r.copy_from_toodee(s);
        true
    }
    fn copy_within_on<R: toodee::CopyOps<Self>>(r: &mut R, src: ((usize, usize), (usize, usize)), d: (usize, usize)) -> bool {
        r.copy_within(src, d);
        true
    }
}

impl<const N: usize> CellT for Blob<N> {
    const KIND: &'static str = "blob";
    const MAX_ORIGIN: u32 = if N >= 4 { u32::MAX } else { (1u32 << (8 * N)) - 1 };
    fn make(origin: u32) -> Self {
        Blob::of(origin)
    }
    fn origin(&self) -> u32 {
        self.get()
    }
    fn copy_from_slice_on<R: toodee::CopyOps<Self>>(r: &mut R, src: &[Self]) -> bool {
        r.copy_from_slice(src);
        true
    }
    fn copy_from_toodee_on<R: toodee::CopyOps<Self>, S: toodee::TooDeeOps<Self>>(r: &mut R, s: &S) -> bool {
        r.copy_from_toodee(s);
        true
    }
    fn copy_within_on<R: toodee::CopyOps<Self>>(r: &mut R, src: ((usize, usize), (usize, usize)), d: (usize, usize)) -> bool {
        r.copy_within(src, d);
        true
    }
}

macro_rules! copy_ops {
    () => {
        fn copy_from_slice_on<R: toodee::CopyOps<Self>>(r: &mut R, src: &[Self]) -> bool {
            r.copy_from_slice(src);
            true
        }
        fn copy_from_toodee_on<R: toodee::CopyOps<Self>, S: toodee::TooDeeOps<Self>>(r: &mut R, s: &S) -> bool {
            r.copy_from_toodee(s);
            true
        }
        fn copy_within_on<R: toodee::CopyOps<Self>>(r: &mut R, src: ((usize, usize), (usize, usize)), d: (usize, usize)) -> bool {
            r.copy_within(src, d);
            true
        }
    };
}
impl<const N: usize> CellT for Words<N> {
    const KIND: &'static str = "words";
    fn make(origin: u32) -> Self {
        Words::of(origin)
    }
    fn origin(&self) -> u32 {
        self.get()
    }
    copy_ops!();
}
impl CellT for Z0 {
    const KIND: &'static str = "z0";
    const HAS_VALUE: bool = false;
    fn make(_: u32) -> Z0 {
        Z0
    }
    fn origin(&self) -> u32 {
        0
    }
    copy_ops!();
}
impl CellT for A128 {
    const KIND: &'static str = "a128";
    fn make(origin: u32) -> A128 {
        A128(origin)
    }
    fn origin(&self) -> u32 {
        self.0
    }
    copy_ops!();
}

impl CellT for Zst {
    const KIND: &'static str = "zst";
    const HAS_VALUE: bool = false;
    fn make(_: u32) -> Zst {
        Zst::new()
    }
    fn origin(&self) -> u32 {
        0
    }
}
