//! Interpreter for the receiver family (`Access.tla`): calls made through an owned array, a view
//! or a mutable view at any nesting depth, on a root with unique cell ids.  After the calls the
//! WHOLE root is compared with the specification's root (frame condition included).
use crate::canary;
use crate::cells::CellT;
use crate::fault;
use crate::ledger;
use crate::util::*;
use serde_json::{json, Value};
use std::ops::{Index, IndexMut};
use toodee::{
    Col, ColMut, Coordinate, CopyOps, Rows, RowsMut, SortOps, TooDee, TooDeeOps, TooDeeOpsMut, TooDeeView, TooDeeViewMut,
    TranslateOps,
};

/// A third-party implementor: only the REQUIRED trait methods, every default inherited (C13).
/// With `LENIENT` set (root kind "torus") its index operators wrap around instead of panicking: the traits require the
/// operators but say nothing about out-of-range behaviour, so a provided method must not rely on them for its own
/// argument checks.
pub struct Plain<T: 'static>(pub TooDee<T>, Option<TooDeeViewMut<'static, T>>);
thread_local! { pub static LENIENT: std::cell::Cell<bool> = const { std::cell::Cell::new(false) }; }
fn wrap(i: usize, n: usize) -> usize {
    if n > 0 && LENIENT.with(|l| l.get()) { i % n } else { i }
}

/// columns of margin on either side of the window in the "plainv" form
pub const PV_MARGIN: usize = 1;
impl<T: CellT> Plain<T> {
    /// forwards to an array it owns: rows are contiguous
    pub fn owned(t: TooDee<T>) -> Plain<T> {
        Plain(t, None)
    }
    /// Root kind "plainv": forwards to a WINDOW (narrower than its parent) of an array it owns, so its rows are `stride`
    /// apart - a provided method that assumes packed rows is wrong for such an implementor.  `nc`, `nr` > 0.
    pub fn window(nc: usize, nr: usize, items: Vec<T>) -> Plain<T> {
        let pc = nc + 2 * PV_MARGIN;
        let mut all: Vec<T> = Vec::with_capacity(pc * nr);
        let mut it = items.into_iter();
        for y in 0..nr {
            for x in 0..pc {
                if x >= PV_MARGIN && x < PV_MARGIN + nc { all.push(it.next().unwrap()) } else { all.push(T::make(888_100 + (y * pc + x) as u32)) }
            }
        }
        let mut p = Plain(TooDee::from_vec(pc, nr, all), None);
        // the view borrows the array stored next to it; the pair is never moved apart and the view is dropped first
        let vm: TooDeeViewMut<'_, T> = p.0.view_mut((PV_MARGIN, 0), (PV_MARGIN + nc, nr));
        p.1 = Some(unsafe { std::mem::transmute::<TooDeeViewMut<'_, T>, TooDeeViewMut<'static, T>>(vm) });
        p
    }
    pub fn is_window(&self) -> bool {
        self.1.is_some()
    }
    /// the cells the implementor exposes, row-major
    pub fn exposed_cells(&self) -> Vec<&T> {
        match &self.1 {
            None => self.0.data().iter().collect(),
            Some(v) => {
                let (c, r) = v.size();
                (0..r).flat_map(|y| (0..c).map(move |x| (x, y))).map(|(x, y)| &v[(x, y)]).collect()
            }
        }
    }
    pub fn base_addr(&self) -> usize {
        match &self.1 {
            None => self.0.data().as_ptr() as usize,
            Some(_) => self.0.data().as_ptr() as usize + PV_MARGIN * std::mem::size_of::<T>(),
        }
    }
    pub fn row_pitch(&self, nc: usize) -> usize {
        if self.1.is_some() { nc + 2 * PV_MARGIN } else { nc }
    }
    pub fn shape_ok(&self, nc: usize, nr: usize) -> bool {
        match &self.1 {
            None => self.0.size() == (nc, nr) && self.0.data().len() == nc * nr,
            Some(v) => v.size() == (nc, nr) && self.0.size() == (nc + 2 * PV_MARGIN, nr),
        }
    }
    /// the margin cells are as they were made
    pub fn margins_ok(&self) -> bool {
        match &self.1 {
            None => true,
            Some(_) => {
                let (pc, pr) = self.0.size();
                let d = self.0.data();
                (0..pr).all(|y| (0..pc).all(|x| {
                    let inside = x >= PV_MARGIN && x < pc - PV_MARGIN;
                    inside || !T::HAS_VALUE || d[y * pc + x].origin() == T::make(888_100 + (y * pc + x) as u32).origin()
                }))
            }
        }
    }
}
impl<T> Drop for Plain<T> {
    fn drop(&mut self) {
        self.1 = None; // the view goes before the array it points into
    }
}

macro_rules! fwd {
    ($s:expr, $x:ident => $e:expr) => {
        match &$s.1 {
            None => { let $x = &$s.0; $e }
            Some(v) => { let $x = v; $e }
        }
    };
}
macro_rules! fwd_mut {
    ($s:expr, $x:ident => $e:expr) => {
        match &mut $s.1 {
            None => { let $x = &mut $s.0; $e }
            Some(v) => { let $x = v; $e }
        }
    };
}

impl<T> Index<usize> for Plain<T> {
    type Output = [T];
    fn index(&self, r: usize) -> &[T] {
        let r = wrap(r, self.num_rows());
        fwd!(self, x => &x[r])
    }
}
impl<T> Index<Coordinate> for Plain<T> {
    type Output = T;
    fn index(&self, c: Coordinate) -> &T {
        let c = (wrap(c.0, self.num_cols()), wrap(c.1, self.num_rows()));
        fwd!(self, x => &x[c])
    }
}
impl<T> IndexMut<usize> for Plain<T> {
    fn index_mut(&mut self, r: usize) -> &mut [T] {
        let r = wrap(r, self.num_rows());
        fwd_mut!(self, x => &mut x[r])
    }
}
impl<T> IndexMut<Coordinate> for Plain<T> {
    fn index_mut(&mut self, c: Coordinate) -> &mut T {
        let c = (wrap(c.0, self.num_cols()), wrap(c.1, self.num_rows()));
        fwd_mut!(self, x => &mut x[c])
    }
}
impl<T> TooDeeOps<T> for Plain<T> {
    fn num_cols(&self) -> usize {
        fwd!(self, x => x.num_cols())
    }
    fn num_rows(&self) -> usize {
        fwd!(self, x => x.num_rows())
    }
    fn view(&self, s: Coordinate, e: Coordinate) -> TooDeeView<'_, T> {
        fwd!(self, x => x.view(s, e))
    }
    fn rows(&self) -> Rows<'_, T> {
        fwd!(self, x => x.rows())
    }
    fn col(&self, c: usize) -> Col<'_, T> {
        fwd!(self, x => x.col(c))
    }
    unsafe fn get_unchecked_row(&self, r: usize) -> &[T] {
        fwd!(self, x => x.get_unchecked_row(r))
    }
    unsafe fn get_unchecked(&self, c: Coordinate) -> &T {
        fwd!(self, x => x.get_unchecked(c))
    }
}
impl<T> TooDeeOpsMut<T> for Plain<T> {
    fn view_mut(&mut self, s: Coordinate, e: Coordinate) -> TooDeeViewMut<'_, T> {
        fwd_mut!(self, x => x.view_mut(s, e))
    }
    fn rows_mut(&mut self) -> RowsMut<'_, T> {
        fwd_mut!(self, x => x.rows_mut())
    }
    fn col_mut(&mut self, c: usize) -> ColMut<'_, T> {
        fwd_mut!(self, x => x.col_mut(c))
    }
    unsafe fn get_unchecked_row_mut(&mut self, r: usize) -> &mut [T] {
        fwd_mut!(self, x => x.get_unchecked_row_mut(r))
    }
    unsafe fn get_unchecked_mut(&mut self, c: Coordinate) -> &mut T {
        fwd_mut!(self, x => x.get_unchecked_mut(c))
    }
}
impl<T> CopyOps<T> for Plain<T> {}

/// A third-party read-only implementor that has a width but no rows yet: `size()` is (width, 0).
pub struct Lines<T> {
    pub width: usize,
    pub inner: TooDee<T>,
}
impl<T> Index<usize> for Lines<T> {
    type Output = [T];
    fn index(&self, r: usize) -> &[T] {
        &self.inner[r]
    }
}
impl<T> Index<Coordinate> for Lines<T> {
    type Output = T;
    fn index(&self, c: Coordinate) -> &T {
        &self.inner[c]
    }
}
impl<T> TooDeeOps<T> for Lines<T> {
    fn num_cols(&self) -> usize {
        self.width
    }
    fn num_rows(&self) -> usize {
        0
    }
    fn view(&self, s: Coordinate, e: Coordinate) -> TooDeeView<'_, T> {
        self.inner.view(s, e)
    }
    fn rows(&self) -> Rows<'_, T> {
        self.inner.rows()
    }
    fn col(&self, c: usize) -> Col<'_, T> {
        self.inner.col(c)
    }
    unsafe fn get_unchecked_row(&self, r: usize) -> &[T] {
        self.inner.get_unchecked_row(r)
    }
    unsafe fn get_unchecked(&self, c: Coordinate) -> &T {
        self.inner.get_unchecked(c)
    }
}

#[derive(Clone, Debug)]
pub struct Win {
    pub m: bool,
    pub s: (usize, usize),
    pub e: (usize, usize),
}

pub struct Ctx {
    /// address of root cell (0,0) and root row stride, for identity checks
    pub base: usize,
    pub elem_size: usize,
    pub root_nc: usize,
    pub root_len: usize,
    /// absolute offset of the receiver inside the root
    pub off: (usize, usize),
}

impl Ctx {
    fn addr_of(&self, c: usize, r: usize) -> usize {
        self.base + ((self.off.1 + r) * self.root_nc + self.off.0 + c) * self.elem_size
    }
}

fn res_unit() -> Value {
    json!({"k": "unit"})
}
fn res_panic() -> Value {
    json!({"k": "panic"})
}

macro_rules! def_grid_res {
    ($name:ident, [$($gen:tt)*], $R:ty) => {
        #[allow(clippy::needless_lifetimes)]
        fn $name<$($gen)* T: CellT>(r: &$R) -> Value {
    let (nc, nr) = r.size();
    let mut v = Vec::new();
    let mut notes = serde_json::Map::new();
    if r.num_cols() != nc || r.num_rows() != nr {
        notes.insert("size_inconsistent".into(), json!(true));
    }
    if (nc == 0) != (nr == 0) {
        notes.insert("zero_rule".into(), json!([nc, nr]));
        return json!({"k": "grid", "nc": nc, "nr": nr, "v": v, "notes": notes});
    }
    if r.is_empty() != (nc == 0) {
        notes.insert("is_empty".into(), json!(r.is_empty()));
    }
    for y in 0..nr {
        for x in 0..nc {
            v.push(r[(x, y)].origin());
        }
    }
    // the row iterator must show the same cells
    let via_rows: Vec<u32> = r.rows().flat_map(|row| row.iter().map(|e| e.origin())).collect();
    if via_rows != v {
        notes.insert("rows_differ".into(), json!(via_rows));
    }
    let mut out = json!({"k": "grid", "nc": nc, "nr": nr, "v": v});
    if !notes.is_empty() {
        out["notes"] = Value::Object(notes);
    }
    out
}
    };
}
def_grid_res!(grid_res_any, [R: TooDeeOps<T>,], R);
def_grid_res!(grid_res_owned, [], TooDee<T>);
def_grid_res!(grid_res_view, ['v,], TooDeeView<'v, T>);
def_grid_res!(grid_res_vm, ['v,], TooDeeViewMut<'v, T>);
fn grid_res<T: CellT, R: TooDeeOps<T>>(r: &R) -> Value {
    grid_res_any::<R, T>(r)
}

fn some_at<T: CellT>(cx: &Ctx, p: &T, c: usize, r: usize) -> Value {
    let addr = p as *const T as usize;
    if T::HAS_VALUE && std::mem::size_of::<T>() > 0 && addr != cx.addr_of(c, r) {
        json!({"k": "some", "v": p.origin(), "wrong_address": true})
    } else {
        json!({"k": "some", "v": p.origin()})
    }
}

/// Calls available on every receiver.  The SAME source text is compiled once per concrete receiver type (and once
/// generically, for third-party implementors): written with method-call syntax on a concrete `TooDee`, `TooDeeView` or
/// `TooDeeViewMut`, a call resolves the way it does in user code - to an inherent method if the type has one of that
/// name, to the trait method otherwise.  A generic `R: TooDeeOps<T>` would always pick the trait method.
macro_rules! def_read_call {
    ($name:ident, [$($gen:tt)*], $R:ty, $grid:ident) => {
        #[allow(clippy::needless_lifetimes)]
        fn $name<$($gen)* T: CellT>(cx: &Ctx, recv: &$R, op: &str, _a: &Value, conc: &[usize]) -> Option<Value> {
    Some(match op {
        "idx_coord" => some_at(cx, &recv[(conc[0], conc[1])], conc[0], conc[1]),
        "idx_row" => {
            let row: &[T] = &recv[conc[1]];
            some_at(cx, &row[conc[0]], conc[0], conc[1])
        }
        "col_idx" => {
            let col = recv.col(conc[0]);
            let p: &T = &col[conc[1]];
            // SAFETY of the comparison only: the reference outlives `col` because it points into the root
            let p2: &T = unsafe { &*(p as *const T) };
            some_at(cx, p2, conc[0], conc[1])
        }
        "get_unchecked" => some_at(cx, unsafe { recv.get_unchecked((conc[0], conc[1])) }, conc[0], conc[1]),
        "get_unchecked_row" => {
            let row = unsafe { recv.get_unchecked_row(conc[0]) };
            json!({"k": "ids", "v": origins_of(row)})
        }
        "row" => {
            let row: &[T] = &recv[conc[0]];
            json!({"k": "ids", "v": origins_of(row)})
        }
        "col" => {
            let v: Vec<u32> = recv.col(conc[0]).map(|e| e.origin()).collect();
            json!({"k": "ids", "v": v})
        }
        "size" => $grid(recv),
        "view" => {
            let v = recv.view((conc[0], conc[1]), (conc[2], conc[3]));
            grid_res_view(&v)
        }
        _ => return None,
    })
}
    };
}
def_read_call!(read_call, [R: TooDeeOps<T>,], R, grid_res);
def_read_call!(read_call_owned, [], TooDee<T>, grid_res_owned);
def_read_call!(read_call_view, ['v,], TooDeeView<'v, T>, grid_res_view);
def_read_call!(read_call_vm, ['v,], TooDeeViewMut<'v, T>, grid_res_vm);

/// Calls that need a mutable receiver (one compiled copy per concrete receiver type, see `def_read_call`).
macro_rules! def_mut_call {
    ($name:ident, [$($gen:tt)*], $R:ty) => {
        #[allow(clippy::needless_lifetimes)]
        fn $name<$($gen)* T: CellT>(cx: &Ctx, recv: &mut $R, op: &str, a: &Value, conc: &[usize]) -> Option<Value> {
    let val = |k: &str| -> u32 { get_u64(a, k) as u32 };
    Some(match op {
        "idxm_coord" => {
            let p: &mut T = &mut recv[(conc[0], conc[1])];
            let r = some_at(cx, p, conc[0], conc[1]);
            *p = T::make(val("v"));
            r
        }
        "idxm_row" => {
            let row: &mut [T] = &mut recv[conc[1]];
            let p = &mut row[conc[0]];
            let r = some_at(cx, p, conc[0], conc[1]);
            *p = T::make(val("v"));
            r
        }
        "colm_idxm" => {
            let mut col = recv.col_mut(conc[0]);
            let p: &mut T = &mut col[conc[1]];
            let r = some_at(cx, p, conc[0], conc[1]);
            *p = T::make(val("v"));
            r
        }
        "colm_idx" => {
            let col = recv.col_mut(conc[0]);
            let p: &T = &col[conc[1]];
            some_at(cx, p, conc[0], conc[1])
        }
        "get_unchecked_mut" => {
            let p = unsafe { recv.get_unchecked_mut((conc[0], conc[1])) };
            let r = some_at(cx, p, conc[0], conc[1]);
            *p = T::make(val("v"));
            r
        }
        "get_unchecked_row_mut" => {
            let row = unsafe { recv.get_unchecked_row_mut(conc[1]) };
            let ids = origins_of(row);
            row[conc[0]] = T::make(val("v"));
            json!({"k": "ids", "v": ids})
        }
        "view_mut" => {
            let mut v = recv.view_mut((conc[0], conc[1]), (conc[2], conc[3]));
            let g = grid_res_vm(&v);
            let (nc, nr) = v.size();
            if (nc == 0) == (nr == 0) {
                let base = val("v");
                for y in 0..nr {
                    for x in 0..nc {
                        v[(x, y)] = T::make(base + (y * nc + x) as u32);
                    }
                }
            }
            g
        }
        "fill" => {
            recv.fill(T::make(val("v")));
            res_unit()
        }
        "swap" => {
            recv.swap((conc[0], conc[1]), (conc[2], conc[3]));
            res_unit()
        }
        "swap_rows" => {
            recv.swap_rows(conc[0], conc[1]);
            res_unit()
        }
        "swap_cols" => {
            recv.swap_cols(conc[0], conc[1]);
            res_unit()
        }
        "row_pair_swap" => {
            let (r1, r2) = recv.row_pair_mut(conc[0], conc[1]);
            let mut ids = origins_of(r1);
            ids.extend(origins_of(r2));
            r1.swap_with_slice(r2);
            json!({"k": "ids", "v": ids})
        }
        "write_rows_mut" => {
            let rev = a["rev"].as_bool().unwrap();
            let mut k = val("v");
            let mut items: Vec<&mut [T]> = if rev { recv.rows_mut().rev().collect() } else { recv.rows_mut().collect() };
            for row in items.iter_mut() {
                for cell in row.iter_mut() {
                    *cell = T::make(k);
                    k += 1;
                }
            }
            res_unit()
        }
        "write_cells_mut" => {
            let rev = a["rev"].as_bool().unwrap();
            let mut k = val("v");
            let items: Vec<&mut T> = if rev { recv.cells_mut().rev().collect() } else { recv.cells_mut().collect() };
            for cell in items {
                *cell = T::make(k);
                k += 1;
            }
            res_unit()
        }
        "write_col_mut" => {
            let rev = a["rev"].as_bool().unwrap();
            let mut k = val("v");
            let items: Vec<&mut T> = if rev { recv.col_mut(conc[0]).rev().collect() } else { recv.col_mut(conc[0]).collect() };
            for cell in items {
                *cell = T::make(k);
                k += 1;
            }
            res_unit()
        }
        "clone_from_slice" => {
            let src: Vec<T> = make_items(&get_list(a, "src"));
            recv.clone_from_slice(&src);
            res_unit()
        }
        "copy_from_slice" => {
            let src: Vec<T> = make_items(&get_list(a, "src"));
            if !T::copy_from_slice_on(recv, &src) {
                return None;
            }
            res_unit()
        }
        "clone_from_toodee" | "copy_from_toodee" => {
            let snc = get_u64(a, "snc") as usize;
            let snr = get_u64(a, "snr") as usize;
            let src: Vec<T> = make_items(&get_list(a, "src"));
            let is_copy = op == "copy_from_toodee";
            let done = match a["sk"].as_str().unwrap() {
                "owned" => {
                    let s = TooDee::from_vec(snc, snr, src);
                    if is_copy { T::copy_from_toodee_on(recv, &s) } else { recv.clone_from_toodee(&s); true }
                }
                "view" => {
                    let s = TooDee::from_vec(snc, snr, src);
                    let v = s.view((0, 0), (snc, snr));
                    if is_copy { T::copy_from_toodee_on(recv, &v) } else { recv.clone_from_toodee(&v); true }
                }
                "lines" => {
                    // a third-party source reporting (snc, 0)
                    let s = Lines { width: snc, inner: TooDee::<T>::default() };
                    if is_copy { T::copy_from_toodee_on(recv, &s) } else { recv.clone_from_toodee(&s); true }
                }
                _ => {
                    // a strided source: the cells sit at offset (1,1) of a larger array
                    let (bc, br) = (snc + 2, snr + 1);
                    let mut big: Vec<T> = Vec::with_capacity(bc * br);
                    let mut it = src.into_iter();
                    for y in 0..br {
                        for x in 0..bc {
                            if y >= 1 && y < 1 + snr && x >= 1 && x < 1 + snc {
                                big.push(it.next().unwrap());
                            } else {
                                big.push(T::make(777_000 + (y * bc + x) as u32));
                            }
                        }
                    }
                    let s = TooDee::from_vec(bc, br, big);
                    let v = s.view((1, 1), (1 + snc, 1 + snr));
                    if is_copy { T::copy_from_toodee_on(recv, &v) } else { recv.clone_from_toodee(&v); true }
                }
            };
            if !done {
                return None;
            }
            res_unit()
        }
        "copy_within" => {
            if !T::copy_within_on(recv, ((conc[0], conc[1]), (conc[2], conc[3])), (conc[4], conc[5])) {
                return None;
            }
            res_unit()
        }
        "translate" => {
            recv.translate_with_wrap((conc[0], conc[1]));
            res_unit()
        }
        "flip_rows" => {
            recv.flip_rows();
            res_unit()
        }
        "flip_cols" => {
            recv.flip_cols();
            res_unit()
        }
        "sort" => {
            let line = conc[0];
            let by = a["by"].as_str().unwrap();
            let stable = a["stable"].as_bool().unwrap();
            let form = a["form"].as_str().unwrap();
            match (by, stable, form) {
                ("row", true, "cmp") => recv.sort_by_row(line, |x, y| { fault::tick(fault::Site::Cmp); x.key().cmp(&y.key()) }),
                ("row", false, "cmp") => recv.sort_unstable_by_row(line, |x, y| { fault::tick(fault::Site::Cmp); x.key().cmp(&y.key()) }),
                ("row", true, "key") => recv.sort_by_row_key(line, |x| { fault::tick(fault::Site::Key); x.key() }),
                ("row", false, "key") => recv.sort_unstable_by_row_key(line, |x| { fault::tick(fault::Site::Key); x.key() }),
                // "skey": the key function returns an OWNING key type (String): key caches / drop-glue-gated paths
                ("row", true, "skey") => recv.sort_by_row_key(line, |x| { fault::tick(fault::Site::Key); format!("{:010}", x.key()) }),
                ("row", false, "skey") => recv.sort_unstable_by_row_key(line, |x| { fault::tick(fault::Site::Key); format!("{:010}", x.key()) }),
                ("col", true, "skey") => recv.sort_by_col_key(line, |x| { fault::tick(fault::Site::Key); format!("{:010}", x.key()) }),
                ("col", false, "skey") => recv.sort_unstable_by_col_key(line, |x| { fault::tick(fault::Site::Key); format!("{:010}", x.key()) }),
                // "bkey": a one-byte key type (narrow keys / narrow index caches)
                ("row", true, "bkey") => recv.sort_by_row_key(line, |x| { fault::tick(fault::Site::Key); x.key() as u8 }),
                ("row", false, "bkey") => recv.sort_unstable_by_row_key(line, |x| { fault::tick(fault::Site::Key); x.key() as u8 }),
                ("col", true, "bkey") => recv.sort_by_col_key(line, |x| { fault::tick(fault::Site::Key); x.key() as u8 }),
                ("col", false, "bkey") => recv.sort_unstable_by_col_key(line, |x| { fault::tick(fault::Site::Key); x.key() as u8 }),
                ("row", true, "ord") => recv.sort_row_ord::<()>(line),
                ("row", false, "ord") => recv.sort_unstable_row_ord::<()>(line),
                ("col", true, "cmp") => recv.sort_by_col(line, |x, y| { fault::tick(fault::Site::Cmp); x.key().cmp(&y.key()) }),
                ("col", false, "cmp") => recv.sort_unstable_by_col(line, |x, y| { fault::tick(fault::Site::Cmp); x.key().cmp(&y.key()) }),
                ("col", true, "key") => recv.sort_by_col_key(line, |x| { fault::tick(fault::Site::Key); x.key() }),
                ("col", false, "key") => recv.sort_unstable_by_col_key(line, |x| { fault::tick(fault::Site::Key); x.key() }),
                ("col", true, "ord") => recv.sort_col_ord::<()>(line),
                _ => panic!("harness: unknown sort variant"),
            }
            res_unit()
        }
        _ => return None,
    })
}
    };
}
def_mut_call!(mut_call, [R: TooDeeOpsMut<T> + CopyOps<T>,], R);
def_mut_call!(mut_call_owned, [], TooDee<T>);
def_mut_call!(mut_call_vm, ['v,], TooDeeViewMut<'v, T>);

pub enum Leaf<'a, T: 'static> {
    Owned(&'a mut TooDee<T>),
    Plain(&'a mut Plain<T>),
    VM(TooDeeViewMut<'a, T>),
    V(TooDeeView<'a, T>),
}

impl<'a, T: CellT> Leaf<'a, T> {
    /// `None` = the call does not exist for this receiver / element type (case skipped).
    pub fn call(&mut self, cx: &Ctx, op: &str, a: &Value, conc: &[usize]) -> Option<Value> {
        if op == "debug" {
            // Debug lists the rows: compared with the rendering of the rows gathered cell by cell
            fn dbg<T: CellT, R: TooDeeOps<T>>(r: &R, shown: String) -> Value {
                let mut g = grid_res::<T, R>(r);
                let (nc, nr) = r.size();
                if (nc == 0) == (nr == 0) {
                    let rows: Vec<Vec<&T>> = (0..nr).map(|y| (0..nc).map(|x| &r[(x, y)]).collect()).collect();
                    if shown != format!("{:?}", rows) {
                        g["notes"] = json!({"debug_differs": shown});
                    }
                }
                g
            }
            return match self {
                Leaf::Owned(t) => Some(dbg::<T, _>(&**t, format!("{:?}", &**t))),
                Leaf::VM(t) => Some(dbg::<T, _>(&*t, format!("{:?}", &*t))),
                Leaf::V(t) => Some(dbg::<T, _>(&*t, format!("{:?}", &*t))),
                Leaf::Plain(_) => None,
            };
        }
        if op == "as_view" {
            // From<TooDeeViewMut> for TooDeeView: the shared view of the same window
            return match self {
                Leaf::Owned(t) => {
                    let z = t.size();
                    let v: TooDeeView<'_, T> = t.view_mut((0, 0), z).into();
                    Some(grid_res::<T, _>(&v))
                }
                Leaf::VM(t) => {
                    let z = t.size();
                    let v: TooDeeView<'_, T> = t.view_mut((0, 0), z).into();
                    Some(grid_res::<T, _>(&v))
                }
                _ => None,
            };
        }
        let r = match self {
            Leaf::Owned(t) => read_call_owned::<T>(cx, &**t, op, a, conc),
            Leaf::Plain(t) => read_call::<_, T>(cx, &**t, op, a, conc),
            Leaf::VM(t) => read_call_vm::<T>(cx, &*t, op, a, conc),
            Leaf::V(t) => read_call_view::<T>(cx, &*t, op, a, conc),
        };
        if r.is_some() {
            return r;
        }
        match self {
            Leaf::Owned(t) => mut_call_owned::<T>(cx, &mut **t, op, a, conc),
            Leaf::Plain(t) => mut_call::<_, T>(cx, &mut **t, op, a, conc),
            Leaf::VM(t) => mut_call_vm::<T>(cx, t, op, a, conc),
            Leaf::V(_) => None,
        }
    }

    pub fn snapshot(&self) -> (usize, usize, Vec<u32>) {
        fn snap<T: CellT, R: TooDeeOps<T>>(r: &R) -> (usize, usize, Vec<u32>) {
            let (nc, nr) = r.size();
            let mut v = Vec::new();
            if (nc == 0) == (nr == 0) {
                for y in 0..nr {
                    for x in 0..nc {
                        v.push(r[(x, y)].origin());
                    }
                }
            }
            (nc, nr, v)
        }
        match self {
            Leaf::Owned(t) => snap::<T, _>(&**t),
            Leaf::Plain(t) => snap::<T, _>(&**t),
            Leaf::VM(t) => snap::<T, _>(t),
            Leaf::V(t) => snap::<T, _>(t),
        }
    }
}

pub fn descend_v<'a, T: CellT>(v: TooDeeView<'a, T>, stack: &[Win], f: &mut dyn FnMut(Leaf<'_, T>)) {
    match stack.split_first() {
        None => f(Leaf::V(v)),
        Some((w, rest)) => {
            let v2 = v.view(w.s, w.e);
            descend_v(v2, rest, f)
        }
    }
}

pub fn descend_vm<'a, T: CellT>(mut v: TooDeeViewMut<'a, T>, stack: &[Win], f: &mut dyn FnMut(Leaf<'_, T>)) {
    match stack.split_first() {
        None => f(Leaf::VM(v)),
        Some((w, rest)) => {
            if w.m {
                let v2 = v.view_mut(w.s, w.e);
                descend_vm(v2, rest, f)
            } else {
                let v2 = v.view(w.s, w.e);
                descend_v(v2, rest, f)
            }
        }
    }
}

/// (the concrete form for `TooDee`: method-call syntax on the concrete type, as in user code)
pub fn descend_toodee<T: CellT>(t: &mut TooDee<T>, stack: &[Win], f: &mut dyn FnMut(Leaf<'_, T>)) {
    let (w, rest) = stack.split_first().expect("non-empty stack");
    if w.m {
        descend_vm(t.view_mut(w.s, w.e), rest, f)
    } else {
        descend_v(t.view(w.s, w.e), rest, f)
    }
}

pub fn descend_owned<T: CellT, R: TooDeeOpsMut<T>>(t: &mut R, stack: &[Win], f: &mut dyn FnMut(Leaf<'_, T>)) {
    let (w, rest) = stack.split_first().expect("non-empty stack");
    if w.m {
        descend_vm(t.view_mut(w.s, w.e), rest, f)
    } else {
        descend_v(t.view(w.s, w.e), rest, f)
    }
}

pub fn parse_stack(case: &Value) -> Vec<Win> {
    case["stack"]
        .as_array()
        .map(|l| {
            l.iter()
                .map(|w| {
                    let s = get_pair(w, "s");
                    let e = get_pair(w, "e");
                    Win { m: w["k"] == "m", s: (s.0 as usize, s.1 as usize), e: (e.0 as usize, e.1 as usize) }
                })
                .collect()
        })
        .unwrap_or_default()
}

fn index_args(op: &str, a: &Value) -> Vec<u64> {
    let pair = |k: &str| {
        let p = get_pair(a, k);
        vec![p.0, p.1]
    };
    match op {
        "idx_coord" | "idx_row" | "col_idx" | "get_unchecked" | "idxm_coord" | "idxm_row" | "colm_idx" | "colm_idxm"
        | "get_unchecked_mut" | "get_unchecked_row_mut" => vec![get_u64(a, "c"), get_u64(a, "r")],
        "row" | "get_unchecked_row" => vec![get_u64(a, "r")],
        "col" | "write_col_mut" => vec![get_u64(a, "c")],
        "view" | "view_mut" => [pair("s"), pair("e")].concat(),
        "swap" => vec![get_u64(a, "c1"), get_u64(a, "r1"), get_u64(a, "c2"), get_u64(a, "r2")],
        "swap_rows" | "row_pair_swap" => vec![get_u64(a, "r1"), get_u64(a, "r2")],
        "swap_cols" => vec![get_u64(a, "c1"), get_u64(a, "c2")],
        "copy_within" => [pair("tl"), pair("br"), pair("d")].concat(),
        "translate" => vec![get_u64(a, "mc"), get_u64(a, "mr")],
        "sort" => vec![get_u64(a, "line")],
        _ => vec![],
    }
}

/// is argument number `w` of `op` a row-like index (multiplied by the stride)?
fn is_row_arg(op: &str, w: usize) -> bool {
    match op {
        "row" | "get_unchecked_row" | "swap_rows" | "row_pair_swap" => true,
        "col" | "write_col_mut" | "swap_cols" => false,
        "sort" => true,
        _ => w % 2 == 1,
    }
}

fn cartesian(lists: &[Vec<usize>], cap: usize) -> Vec<Vec<usize>> {
    let mut out: Vec<Vec<usize>> = vec![vec![]];
    for l in lists {
        let mut next = Vec::new();
        'o: for prefix in &out {
            for &v in l {
                let mut p = prefix.clone();
                p.push(v);
                next.push(p);
                if next.len() >= cap {
                    break 'o;
                }
            }
        }
        out = next;
    }
    out
}

fn res_matches<T: CellT>(exp: &Value, got: &Value) -> bool {
    if got.get("notes").is_some() || got.get("wrong_address").is_some() {
        return false;
    }
    if exp.get("k") != got.get("k") {
        return false;
    }
    if !T::HAS_VALUE {
        return match exp["k"].as_str().unwrap() {
            "ids" => exp["v"].as_array().map(|x| x.len()) == got["v"].as_array().map(|x| x.len()),
            "grid" => exp["nc"] == got["nc"] && exp["nr"] == got["nr"],
            _ => true,
        };
    }
    if exp["k"] == "grid" {
        return exp["nc"] == got["nc"] && exp["nr"] == got["nr"] && exp["v"] == got["v"];
    }
    exp.get("v") == got.get("v")
}

pub fn u32s(v: &Value) -> Vec<u32> {
    v.as_array().map(|l| l.iter().map(|e| e.as_u64().unwrap() as u32).collect()).unwrap_or_default()
}

pub fn window_of(flat: &[u32], root_nc: usize, off: (usize, usize), size: (usize, usize)) -> Vec<u32> {
    let mut v = Vec::new();
    for y in 0..size.1 {
        for x in 0..size.0 {
            v.push(flat[(off.1 + y) * root_nc + off.0 + x]);
        }
    }
    v
}

pub enum Outcome {
    Skipped,
    Done(Vec<Fail>),
}

/// Run one receiver-family case.
pub fn run_case<T: CellT>(case: &Value, log: &mut Vec<Value>) -> Outcome {
    if T::MAX_ORIGIN != u32::MAX {
        // a narrow element type cannot hold every value the case uses: such cases do not apply to it
        fn fits(v: &Value, max: u64) -> bool {
            match v {
                Value::Number(n) => n.as_u64().map(|x| x <= max).unwrap_or(true),
                Value::Array(l) => l.iter().all(|e| fits(e, max)),
                Value::Object(m) => m.values().all(|e| fits(e, max)),
                _ => true,
            }
        }
        if !fits(case, T::MAX_ORIGIN as u64) {
            return Outcome::Skipped;
        }
    }
    ledger::reset();
    canary::reset();
    fault::disarm();
    let root = &case["root"];
    let kind = root["kind"].as_str().unwrap();
    let nc = get_u64(root, "nc") as usize;
    let nr = get_u64(root, "nr") as usize;
    let ids = get_list(root, "ids");
    let stack = parse_stack(case);
    let calls = case["calls"].as_array().unwrap();
    let mut fails: Vec<Fail> = Vec::new();
    let mut skipped = false;
    let mut driver_res: Vec<Value> = Vec::new();

    // absolute offset / size of the receiver
    let mut off = (0usize, 0usize);
    let mut size = (nc, nr);
    for w in &stack {
        off = (off.0 + w.s.0, off.1 + w.s.1);
        let ext = (w.e.0 - w.s.0, w.e.1 - w.s.1);
        size = if ext.0 == 0 || ext.1 == 0 { (0, 0) } else { ext };
    }

    const EXTRA: usize = 2; // trailing cells of slice-built roots that the view must never touch
    let items: Vec<T> = make_items(&ids);
    enum RootObj<T: 'static> {
        Owned(TooDee<T>),
        Plain(Plain<T>),
        Slice(Vec<T>),
    }
    LENIENT.with(|l| l.set(kind == "torus"));
    let mut rootobj = match kind {
        "owned" => RootObj::Owned(TooDee::from_vec(nc, nr, items)),
        "plain" | "torus" => RootObj::Plain(Plain::owned(TooDee::from_vec(nc, nr, items))),
        "plainv" => {
            if nc == 0 || nr == 0 {
                return Outcome::Skipped;
            }
            RootObj::Plain(Plain::window(nc, nr, items))
        }
        "slice_v" | "slice_m" => {
            let mut v = items;
            for i in 0..EXTRA {
                v.push(T::make(888_000 + i as u32));
            }
            RootObj::Slice(v)
        }
        k => panic!("harness: unknown root kind {k}"),
    };
    let base = match &rootobj {
        RootObj::Owned(t) => t.data().as_ptr() as usize,
        RootObj::Plain(t) => t.base_addr(),
        RootObj::Slice(v) => v.as_ptr() as usize,
    };
    let pitch = match &rootobj {
        RootObj::Plain(t) => t.row_pitch(nc),
        _ => nc,
    };
    let cx = Ctx { base, elem_size: std::mem::size_of::<T>(), root_nc: pitch, root_len: nc * nr, off };

    let mut body = |mut leaf: Leaf<'_, T>| {
        let leaf = &mut leaf;
        // the receiver must have the size the specification computed for the stack
        let snap0 = leaf.snapshot();
        if (snap0.0, snap0.1) != size {
            fails.push(Fail::new(0, "stack_build", json!({"expected_size": [size.0, size.1], "observed": [snap0.0, snap0.1]})));
            return;
        }
        if T::HAS_VALUE && snap0.2 != window_of(&ids, nc, off, size) {
            fails.push(Fail::new(0, "stack_build", json!({"note": "receiver cells differ from the window", "observed": snap0.2})));
            return;
        }
        for (ci, call) in calls.iter().enumerate() {
            let op = call["op"].as_str().unwrap();
            let a = &call["a"];
            let x = &call["x"];
            let idx = index_args(op, a);
            let lists: Vec<Vec<usize>> = idx
                .iter()
                .enumerate()
                .map(|(w, &v)| {
                    let dim = if is_row_arg(op, w) { size.1 } else { size.0 };
                    let strides: Vec<usize> = if is_row_arg(op, w) { vec![nc.max(1)] } else { vec![nc.max(1), 1] };
                    expand_arg(v, &strides, dim, nc * nr + EXTRA)
                })
                .collect();
            let combos = if idx.is_empty() { vec![vec![]] } else { cartesian(&lists, 16) };
            if !x.is_null() && idx.iter().any(|&v| is_big(v)) && x["res"]["k"] != "panic" {
                panic!("harness: Big argument in an accepted call: {call}");
            }
            for conc in &combos {
                let got = match guarded(|| leaf.call(&cx, op, a, conc)) {
                    Ok(Some(v)) => v,
                    Ok(None) => {
                        skipped = true;
                        return;
                    }
                    Err(()) => res_panic(),
                };
                if x.is_null() {
                    // driver mode: nothing is precomputed; the observation is logged and judged by AccessTrace.tla
                    driver_res.push(got);
                    continue;
                }
                if !res_matches::<T>(&x["res"], &got) {
                    fails.push(Fail::new(ci, "res", json!({"op": op, "args": a, "concrete": conc, "expected": x["res"], "observed": got})));
                }
                // the receiver's own cells after the call (the root is compared when the borrow ends)
                if T::HAS_VALUE {
                    let snap = leaf.snapshot();
                    let ok = if let Some(alts) = x.get("alts") {
                        let alts = alts.as_array().unwrap();
                        if alts.is_empty() {
                            snap.2 == window_of(&ids, nc, off, size)
                        } else {
                            alts.iter().any(|alt| snap.2 == window_of(&u32s(alt), nc, off, size))
                        }
                    } else {
                        snap.2 == window_of(&u32s(&x["root"]), nc, off, size)
                    };
                    if !ok || (snap.0, snap.1) != size {
                        fails.push(Fail::new(ci, "inside", json!({"op": op, "args": a, "concrete": conc, "observed_receiver": snap.2,
                            "observed_size": [snap.0, snap.1]})));
                    }
                }
                if !fails.is_empty() {
                    return;
                }
            }
        }
    };

    let built = guarded(|| match &mut rootobj {
        RootObj::Owned(t) => {
            if stack.is_empty() { body(Leaf::Owned(t)) } else { descend_toodee::<T>(t, &stack, &mut body) }
        }
        RootObj::Plain(t) => {
            if stack.is_empty() { body(Leaf::Plain(t)) } else { descend_owned::<T, _>(t, &stack, &mut body) }
        }
        RootObj::Slice(v) => {
            if kind == "slice_v" {
                descend_v(TooDeeView::new(nc, nr, v), &stack, &mut body)
            } else {
                descend_vm(TooDeeViewMut::new(nc, nr, v), &stack, &mut body)
            }
        }
    });
    if built.is_err() {
        fails.push(Fail::new(0, "stack_build", json!({"note": "building the receiver panicked"})));
    }
    if skipped {
        return Outcome::Skipped;
    }

    // the whole root after the calls
    let last = calls.len().saturating_sub(1);
    let (root_now, extras_ok, shape_ok): (Vec<u32>, bool, bool) = match &rootobj {
        RootObj::Owned(t) => (origins_of(t.data()), true, t.size() == (nc, nr) && t.data().len() == nc * nr),
        RootObj::Plain(t) => (t.exposed_cells().iter().map(|e| e.origin()).collect(), t.margins_ok(), t.shape_ok(nc, nr)),
        RootObj::Slice(v) => {
            let o = origins_of(v);
            let ok = v.len() == nc * nr + EXTRA && (0..EXTRA).all(|i| !T::HAS_VALUE || o[nc * nr + i] == T::make(888_000 + i as u32).origin());
            (o[..nc * nr].to_vec(), ok, true)
        }
    };
    if !shape_ok || !extras_ok {
        fails.push(Fail::new(last, "root_shape", json!({"extras_ok": extras_ok, "shape_ok": shape_ok})));
    }
    if !driver_res.is_empty() {
        // one event per driver case (single call): root before, call, observed result, root after
        let c0 = &calls[0];
        log.push(json!({"ev": "acc", "nc": nc, "nr": nr, "ids": ids, "rkind": kind, "stack": case["stack"], "op": c0["op"], "a": c0["a"],
                        "res": driver_res[0], "root_after": root_now, "shape_ok": shape_ok && extras_ok,
                        "redzone_ok": !canary::damaged()}));
    }
    if T::HAS_VALUE && fails.is_empty() && driver_res.is_empty() {
        if let Some(lastcall) = calls.last() {
            let x = &lastcall["x"];
            let ok = if let Some(alts) = x.get("alts") {
                let alts = alts.as_array().unwrap();
                if alts.is_empty() { root_now == ids } else { alts.iter().any(|alt| root_now == u32s(alt)) }
            } else {
                root_now == u32s(&x["root"])
            };
            if !ok {
                // classify: is the damage outside the receiver's rectangle (frame) or inside?
                let exp = if x.get("alts").is_some() { ids.clone() } else { u32s(&x["root"]) };
                let mut outside = false;
                for y in 0..nr {
                    for xx in 0..nc {
                        let inside = size.0 > 0 && xx >= off.0 && xx < off.0 + size.0 && y >= off.1 && y < off.1 + size.1;
                        if !inside && root_now[y * nc + xx] != exp[y * nc + xx] {
                            outside = true;
                        }
                    }
                }
                fails.push(Fail::new(last, if outside { "frame" } else { "root" },
                    json!({"op": lastcall["op"], "args": lastcall["a"], "expected_root": x.get("root"), "observed_root": root_now})));
            }
        }
    }
    // ledger
    let tracked_cells_ok = if T::TRACKED {
        let cells: Vec<&T> = match &rootobj {
            RootObj::Owned(t) => t.data().iter().collect(),
            RootObj::Plain(t) => t.exposed_cells(),
            RootObj::Slice(v) => v.iter().collect(),
        };
        let mut serials: Vec<u64> = cells.iter().map(|e| e.serial()).collect();
        let dead = cells.iter().filter(|e| !e.magic_ok() || ledger::is_live(e.serial()) != Some(true)).count();
        serials.sort_unstable();
        let n0 = serials.len();
        serials.dedup();
        dead == 0 && serials.len() == n0
    } else {
        true
    };
    if !tracked_cells_ok {
        fails.push(Fail::new(last, "ledger.cells", json!({})));
    }
    drop(rootobj);
    if T::TRACKED {
        let dd = ledger::double_drops();
        if !dd.is_empty() || ledger::garbage_drops() > 0 {
            fails.push(Fail::new(last, "ledger.double_drop", json!({"double": dd, "garbage": ledger::garbage_drops()})));
        }
        // a panicking call may leak what it was given, nothing else
        let any_panic = calls.iter().any(|c| c["x"]["res"]["k"] == "panic");
        if !any_panic && !ledger::live_serials().is_empty() {
            fails.push(Fail::new(last, "ledger.leak_at_end", json!({"origins": ledger::live_origins()})));
        }
    }
    if canary::damaged() {
        fails.push(Fail::new(last, "redzone", json!({})));
    }
    Outcome::Done(fails)
}
