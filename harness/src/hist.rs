//! Interpreter for the history machine (`TooDee.tla`): one specification step = one public call
//! on a real owned `TooDee<T>`.  After every step the full projection, the result and the
//! ownership ledger are compared with what the specification computed.
use crate::canary;
use crate::cells::CellT;
use crate::fault;
use crate::ledger;
use crate::util::*;
use serde_json::{json, Value};
use std::collections::HashSet;
use toodee::{DrainCol, DrainRow, IntoIterTooDee, SortOps, TooDee, TooDeeOps, TooDeeOpsMut, TranslateOps};

pub enum Handle<T: 'static> {
    None,
    Row(DrainRow<'static, T>),
    Col(DrainCol<'static, T>),
    Into(IntoIterTooDee<T>),
}

impl<T> Handle<T> {
    pub fn is_none(&self) -> bool {
        matches!(self, Handle::None)
    }
}

pub struct Machine<T: CellT> {
    // field order = drop order: the handle borrows the array
    pub handle: Handle<T>,
    pub arr: Option<Box<TooDee<T>>>,
    pub held: Vec<T>,
    /// 0 natural, 1 tight (shrink_to_fit before growing calls), 2 spare (reserve after construction)
    pub capmode: u8,
    /// serial numbers of supplied items of calls that panicked (may be leaked or dropped)
    pub forgiven: HashSet<u64>,
    /// a fault is armed for the current call (the harness then makes no extra calls into element code)
    pub in_fault: bool,
    /// refuse the k-th allocation request of the next call (memory exhaustion overlay)
    pub afail: Option<u32>,
}

/// Everything the harness reads off a real owned array.
#[derive(Debug, Clone)]
pub struct Obs {
    pub nc: usize,
    pub nr: usize,
    pub len: usize,
    pub shape_ok: bool,
    pub data: Vec<u32>,
    pub serials: Vec<u64>,
    pub lens_ok: bool,
    pub lens: Value,
    pub index_ok: bool,
    pub cap_ok: bool,
    pub dup: usize,
    pub dead: usize,
    pub garbage: usize,
    pub redzone_ok: bool,
}

impl Obs {
    pub fn to_json(&self) -> Value {
        json!({"nc": self.nc, "nr": self.nr, "len": self.len, "data": self.data, "dup": self.dup,
               "dead": self.dead + self.garbage, "lens_ok": self.lens_ok, "index_ok": self.index_ok,
               "redzone_ok": self.redzone_ok})
    }
}

pub fn observe<T: CellT>(t: &TooDee<T>) -> Obs {
    let nc = t.num_cols();
    let nr = t.num_rows();
    let len = t.data().len();
    let shape_ok = nc.checked_mul(nr) == Some(len) && ((nc == 0) == (nr == 0));
    let mut o = Obs {
        nc,
        nr,
        len,
        shape_ok,
        data: Vec::new(),
        serials: Vec::new(),
        lens_ok: true,
        lens: Value::Null,
        index_ok: true,
        cap_ok: t.capacity() >= len,
        dup: 0,
        dead: 0,
        garbage: 0,
        redzone_ok: canary::vec_buffer_ok(t.data().as_ptr(), t.capacity()) && !canary::damaged(),
    };
    // the cells themselves are always safe to read through data()
    for e in t.data() {
        if T::TRACKED {
            if !e.magic_ok() {
                o.garbage += 1;
                o.data.push(u32::MAX);
                o.serials.push(0);
                continue;
            }
            match ledger::is_live(e.serial()) {
                Some(true) => {}
                Some(false) => o.dead += 1,
                None => o.garbage += 1,
            }
            o.serials.push(e.serial());
        } else if T::HAS_SERIAL {
            o.serials.push(e.serial());
        }
        o.data.push(e.origin());
    }
    if T::HAS_SERIAL {
        let mut s = o.serials.clone();
        s.sort_unstable();
        let before = s.len();
        s.dedup();
        o.dup = before - s.len();
    }
    if !shape_ok {
        // The dimensions promise more cells than the Vec owns: the coordinates beyond data().len() are reachable through
        // the unchecked indexers.  Look at what lies there (inside the allocation only): an element that has already
        // been dropped is "dropped while still reachable through the array" (C05).
        if T::TRACKED && std::mem::size_of::<T>() > 0 {
            if let Some(want) = nc.checked_mul(nr) {
                let upto = want.min(t.capacity());
                let base = t.data().as_ptr();
                for i in len..upto {
                    let e: &T = unsafe { &*base.add(i) };
                    if e.magic_ok() {
                        match ledger::is_live(e.serial()) {
                            Some(false) => o.dead += 1,
                            Some(true) => {}
                            None => o.garbage += 1,
                        }
                    } else {
                        o.garbage += 1;
                    }
                }
            }
        }
        // nothing else is safe to call on an array whose dimensions disagree with its contents
        o.lens_ok = false;
        o.index_ok = false;
        return o;
    }
    // the other read accessors of the raw data denote the same slice
    let as_slice: &[T] = t.as_ref();
    let as_vec: &Vec<T> = t.as_ref();
    if as_slice.as_ptr() != t.data().as_ptr() || as_slice.len() != len || as_vec.len() != len || as_vec.as_ptr() != t.data().as_ptr()
        || t.is_empty() != (len == 0) || t.size() != (nc, nr)
    {
        o.index_ok = false;
    }
    let rows_len = t.rows().len();
    let cells_len = t.cells().len();
    let col_lens: Vec<usize> = (0..nc).map(|c| t.col(c).len()).collect();
    o.lens_ok = rows_len == nr && cells_len == len && col_lens.iter().all(|&l| l == nr);
    o.lens = json!({"rows": rows_len, "cells": cells_len, "cols": col_lens});
    // every coordinate denotes data()[r*nc+c]
    let base = t.data().as_ptr();
    'outer: for r in 0..nr {
        let row: &[T] = &t[r];
        if row.len() != nc || row.as_ptr() != unsafe { base.add(r * nc) } {
            o.index_ok = false;
            break;
        }
        for c in 0..nc {
            let p: *const T = &t[(c, r)];
            if p != unsafe { base.add(r * nc + c) } {
                o.index_ok = false;
                break 'outer;
            }
        }
    }
    o
}

fn res_unit() -> Value {
    json!({"k": "unit"})
}
fn res_panic() -> Value {
    json!({"k": "panic"})
}
fn res_none() -> Value {
    json!({"k": "none"})
}

impl<T: CellT + std::hash::Hash> Machine<T> {
    pub fn new(capmode: u8) -> Machine<T> {
        Machine { handle: Handle::None, arr: None, held: Vec::new(), capmode, forgiven: HashSet::new(), in_fault: false, afail: None }
    }

    fn tight(&mut self) {
        if self.capmode == 1 {
            if let Some(a) = self.arr.as_mut() {
                a.shrink_to_fit();
            }
        }
    }

    fn installed(&mut self, t: TooDee<T>) {
        let mut b = Box::new(t);
        if self.capmode == 2 {
            b.reserve(40);
        }
        self.arr = Some(b);
    }

    /// Perform one concrete call.  Returns the observed result.
    /// `args` have already been made concrete (`usize` values); `items` are origins.
    pub fn call(&mut self, op: &str, a: &Value, conc: &[usize], mode: LenMode) -> Value {
        let supplied: Vec<T> = match a.get("items") {
            Some(_) => make_items::<T>(&get_list(a, "items")),
            None => Vec::new(),
        };
        let supplied_serials: Vec<u64> = supplied.iter().map(|e| e.serial()).collect();
        let value: Option<T> = a.get("v").map(|v| T::make(v.as_u64().unwrap() as u32));
        let value_serial = value.as_ref().map(|e| e.serial());
        // memory exhaustion overlay: the k-th allocation request made during this call is refused.  The process
        // either dies (Rust's default for infallible allocation: the driver forgives exactly that) or the call
        // must mean what it always means
        if let Some(k) = self.afail.take() {
            println!("A {k}");
            canary::arm_fail(k);
        }
        let r = guarded(|| self.call_inner(op, a, conc, supplied, value, mode));
        canary::disarm_fail();
        match r {
            Ok(v) => v,
            Err(()) => {
                // (after a fault leaks are tolerated anyway, and the supplied value may legitimately sit in the array)
                if T::TRACKED && !self.in_fault {
                    self.forgiven.extend(supplied_serials);
                    self.forgiven.extend(value_serial);
                }
                res_panic()
            }
        }
    }

    fn call_inner(&mut self, op: &str, a: &Value, conc: &[usize], supplied: Vec<T>, value: Option<T>, mode: LenMode) -> Value {
        match op {
            // ---------------- constructors ----------------
            "default" => {
                self.installed(TooDee::default());
                res_unit()
            }
            "with_capacity" => {
                let k = get_u64(a, "k") as usize;
                let t = TooDee::<T>::with_capacity(k);
                let ok = t.capacity() >= k || std::mem::size_of::<T>() == 0;
                self.installed(t);
                if ok { res_unit() } else { json!({"k": "unit", "capacity_short": true}) }
            }
            "new" => {
                let t = TooDee::<T>::new(conc[0], conc[1]);
                self.installed(t);
                res_unit()
            }
            "init" => {
                let t = TooDee::<T>::init(conc[0], conc[1], value.unwrap());
                self.installed(t);
                res_unit()
            }
            "from_vec" => {
                let t = TooDee::<T>::from_vec(conc[0], conc[1], supplied);
                self.installed(t);
                res_unit()
            }
            "from_box" => {
                let t = TooDee::<T>::from_box(conc[0], conc[1], supplied.into_boxed_slice());
                self.installed(t);
                res_unit()
            }
            // ---------------- drains / by-value iterator ----------------
            "d_next" | "d_next_back" | "d_len" => {
                let front = op == "d_next";
                if op == "d_len" {
                    let n = match &self.handle {
                        Handle::Row(d) => (d.len(), d.size_hint()),
                        Handle::Col(d) => (d.len(), d.size_hint()),
                        Handle::Into(d) => (d.len(), d.size_hint()),
                        Handle::None => panic!("harness: no handle"),
                    };
                    if n.1 != (n.0, Some(n.0)) {
                        return json!({"k": "val", "v": n.0, "size_hint_mismatch": true});
                    }
                    return json!({"k": "val", "v": n.0});
                }
                let item = match &mut self.handle {
                    Handle::Row(d) => if front { d.next() } else { d.next_back() },
                    Handle::Col(d) => if front { d.next() } else { d.next_back() },
                    Handle::Into(d) => if front { d.next() } else { d.next_back() },
                    Handle::None => panic!("harness: no handle"),
                };
                match item {
                    None => res_none(),
                    Some(e) => {
                        let live = !T::TRACKED || (e.magic_ok() && ledger::is_live(e.serial()) == Some(true));
                        let o = e.origin();
                        self.held.push(e);
                        if live { json!({"k": "some", "v": o}) } else { json!({"k": "some", "v": o, "dead_on_arrival": true}) }
                    }
                }
            }
            "d_nth" | "d_nth_back" => {
                let n = conc[0];
                let front = op == "d_nth";
                let item = match &mut self.handle {
                    Handle::Row(d) => if front { d.nth(n) } else { d.nth_back(n) },
                    Handle::Col(d) => if front { d.nth(n) } else { d.nth_back(n) },
                    Handle::Into(d) => if front { d.nth(n) } else { d.nth_back(n) },
                    Handle::None => panic!("harness: no handle"),
                };
                match item {
                    None => res_none(),
                    Some(e) => {
                        let live = !T::TRACKED || (e.magic_ok() && ledger::is_live(e.serial()) == Some(true));
                        let o = e.origin();
                        self.held.push(e);
                        if live { json!({"k": "some", "v": o}) } else { json!({"k": "some", "v": o, "dead_on_arrival": true}) }
                    }
                }
            }
            "d_count" => {
                let n = match std::mem::replace(&mut self.handle, Handle::None) {
                    Handle::Row(d) => d.count(),
                    Handle::Col(d) => d.count(),
                    Handle::Into(d) => d.count(),
                    Handle::None => panic!("harness: no handle"),
                };
                json!({"k": "val", "v": n})
            }
            "d_last" => {
                let item = match std::mem::replace(&mut self.handle, Handle::None) {
                    Handle::Row(d) => d.last(),
                    Handle::Col(d) => d.last(),
                    Handle::Into(d) => d.last(),
                    Handle::None => panic!("harness: no handle"),
                };
                match item {
                    None => res_none(),
                    Some(e) => {
                        let live = !T::TRACKED || (e.magic_ok() && ledger::is_live(e.serial()) == Some(true));
                        let o = e.origin();
                        self.held.push(e);
                        if live { json!({"k": "some", "v": o}) } else { json!({"k": "some", "v": o, "dead_on_arrival": true}) }
                    }
                }
            }
            "d_collect" | "d_rcollect" => {
                let fwd = op == "d_collect";
                let items: Vec<T> = match std::mem::replace(&mut self.handle, Handle::None) {
                    Handle::Row(d) => if fwd { d.collect() } else { d.rev().collect() },
                    Handle::Col(d) => if fwd { d.collect() } else { d.rev().collect() },
                    Handle::Into(d) => if fwd { d.collect() } else { d.rev().collect() },
                    Handle::None => panic!("harness: no handle"),
                };
                let dead = T::TRACKED && items.iter().any(|e| !(e.magic_ok() && ledger::is_live(e.serial()) == Some(true)));
                let v = origins_of(&items);
                self.held.extend(items);
                if dead { json!({"k": "ids", "v": v, "dead_on_arrival": true}) } else { json!({"k": "ids", "v": v}) }
            }
            "d_find" => {
                let target = conc[0].checked_add(1);
                let mut k = 0usize;
                let p = |_: &T| {
                    k += 1;
                    Some(k) == target
                };
                let item = match &mut self.handle {
                    Handle::Row(d) => d.find(p),
                    Handle::Col(d) => d.find(p),
                    Handle::Into(d) => d.find(p),
                    Handle::None => panic!("harness: no handle"),
                };
                match item {
                    None => res_none(),
                    Some(e) => {
                        let live = !T::TRACKED || (e.magic_ok() && ledger::is_live(e.serial()) == Some(true));
                        let o = e.origin();
                        self.held.push(e);
                        if live { json!({"k": "some", "v": o}) } else { json!({"k": "some", "v": o, "dead_on_arrival": true}) }
                    }
                }
            }
            "d_for_each" => {
                let h = std::mem::replace(&mut self.handle, Handle::None);
                let held = &mut self.held;
                let start = held.len();
                let f = |e: T| {
                    crate::fault::tick(crate::fault::Site::Closure);
                    held.push(e);
                };
                match h {
                    Handle::Row(d) => d.for_each(f),
                    Handle::Col(d) => d.for_each(f),
                    Handle::Into(d) => d.for_each(f),
                    Handle::None => panic!("harness: no handle"),
                };
                let got = &self.held[start..];
                let dead = T::TRACKED && got.iter().any(|e| !(e.magic_ok() && ledger::is_live(e.serial()) == Some(true)));
                let v = origins_of(got);
                if dead { json!({"k": "ids", "v": v, "dead_on_arrival": true}) } else { json!({"k": "ids", "v": v}) }
            }
            "d_fold" | "d_rfold" => {
                // every remaining item goes to a caller-supplied closure (fault site "closure"), which keeps it
                let fwd = op == "d_fold";
                let h = std::mem::replace(&mut self.handle, Handle::None);
                let held = &mut self.held;
                let start = held.len();
                let mut f = |(): (), e: T| {
                    crate::fault::tick(crate::fault::Site::Closure);
                    held.push(e);
                };
                match h {
                    Handle::Row(d) => if fwd { d.fold((), &mut f) } else { d.rfold((), &mut f) },
                    Handle::Col(d) => if fwd { d.fold((), &mut f) } else { d.rfold((), &mut f) },
                    Handle::Into(d) => if fwd { d.fold((), &mut f) } else { d.rfold((), &mut f) },
                    Handle::None => panic!("harness: no handle"),
                };
                let got = &self.held[start..];
                let dead = T::TRACKED && got.iter().any(|e| !(e.magic_ok() && ledger::is_live(e.serial()) == Some(true)));
                let v = origins_of(got);
                if dead { json!({"k": "ids", "v": v, "dead_on_arrival": true}) } else { json!({"k": "ids", "v": v}) }
            }
            "d_drop" => {
                self.handle = Handle::None;
                res_unit()
            }
            "d_forget" => {
                std::mem::forget(std::mem::replace(&mut self.handle, Handle::None));
                res_unit()
            }
            _ => self.call_live(op, a, conc, supplied, value, mode),
        }
    }

    fn call_live(&mut self, op: &str, a: &Value, conc: &[usize], supplied: Vec<T>, value: Option<T>, mode: LenMode) -> Value {
        if matches!(op, "insert_row" | "push_row" | "insert_col" | "push_col") {
            self.tight();
        }
        let arr: &mut TooDee<T> = self.arr.as_mut().expect("harness: no array");
        let p: *mut TooDee<T> = arr;
        match op {
            "insert_row" => {
                arr.insert_row(conc[0], Feed::new(supplied, mode));
                res_unit()
            }
            "push_row" => {
                arr.push_row(Feed::new(supplied, mode));
                res_unit()
            }
            "insert_col" => {
                arr.insert_col(conc[0], Feed::new(supplied, mode));
                res_unit()
            }
            "push_col" => {
                arr.push_col(Feed::new(supplied, mode));
                res_unit()
            }
            "remove_row" => {
                let d = unsafe { (*p).remove_row(conc[0]) };
                let n = d.len();
                self.handle = Handle::Row(d);
                json!({"k": "drain", "v": n})
            }
            "pop_row" => match unsafe { (*p).pop_row() } {
                None => res_none(),
                Some(d) => {
                    let n = d.len();
                    self.handle = Handle::Row(d);
                    json!({"k": "drain", "v": n})
                }
            },
            "remove_col" => {
                let d = unsafe { (*p).remove_col(conc[0]) };
                let n = d.len();
                self.handle = Handle::Col(d);
                json!({"k": "drain", "v": n})
            }
            "pop_col" => match unsafe { (*p).pop_col() } {
                None => res_none(),
                Some(d) => {
                    let n = d.len();
                    self.handle = Handle::Col(d);
                    json!({"k": "drain", "v": n})
                }
            },
            "clear" => {
                arr.clear();
                res_unit()
            }
            "swap_dimensions" => {
                arr.swap_dimensions();
                res_unit()
            }
            "reserve" => {
                let k = get_u64(a, "k") as usize;
                arr.reserve(k);
                if arr.capacity() >= arr.data().len() + k { res_unit() } else { json!({"k": "unit", "capacity_short": true}) }
            }
            "reserve_exact" => {
                let k = get_u64(a, "k") as usize;
                arr.reserve_exact(k);
                if arr.capacity() >= arr.data().len() + k { res_unit() } else { json!({"k": "unit", "capacity_short": true}) }
            }
            "shrink_to_fit" => {
                arr.shrink_to_fit();
                res_unit()
            }
            "fill" => {
                arr.fill(value.unwrap());
                res_unit()
            }
            "set" => {
                arr[(conc[0], conc[1])] = value.unwrap();
                res_unit()
            }
            "set_flat" => {
                if get_u64(a, "via") == 0 {
                    arr.data_mut()[conc[0]] = value.unwrap();
                } else {
                    let flat: &mut [T] = arr.as_mut();
                    flat[conc[0]] = value.unwrap();
                }
                res_unit()
            }
            "swap" => {
                arr.swap((conc[0], conc[1]), (conc[2], conc[3]));
                res_unit()
            }
            "swap_rows" => {
                arr.swap_rows(conc[0], conc[1]);
                res_unit()
            }
            "swap_cols" => {
                arr.swap_cols(conc[0], conc[1]);
                res_unit()
            }
            "translate" => {
                arr.translate_with_wrap((conc[0], conc[1]));
                res_unit()
            }
            "flip_rows" => {
                arr.flip_rows();
                res_unit()
            }
            "flip_cols" => {
                arr.flip_cols();
                res_unit()
            }
            "sort_by_row" => {
                arr.sort_by_row(conc[0], |x, y| { fault::tick(fault::Site::Cmp); x.key().cmp(&y.key()) });
                res_unit()
            }
            "sort_by_col" => {
                arr.sort_by_col(conc[0], |x, y| { fault::tick(fault::Site::Cmp); x.key().cmp(&y.key()) });
                res_unit()
            }
            "leak_borrow" => {
                let taken = get_u64(a, "taken") as usize;
                let (nc, nr) = (arr.num_cols(), arr.num_rows());
                match a["what"].as_str().unwrap() {
                    "rows" => { let mut i = arr.rows(); for _ in 0..taken { i.next(); } std::mem::forget(i); }
                    "rows_mut" => { let mut i = arr.rows_mut(); for _ in 0..taken { i.next_back(); } std::mem::forget(i); }
                    "col" => { if nc > 0 { let mut i = arr.col(nc - 1); for _ in 0..taken { i.next(); } std::mem::forget(i); } }
                    "col_mut" => { if nc > 0 { let mut i = arr.col_mut(0); for _ in 0..taken { i.next_back(); } std::mem::forget(i); } }
                    "cells" => { let mut i = arr.cells(); for _ in 0..taken { i.next(); i.next_back(); } std::mem::forget(i); }
                    "cells_mut" => { let mut i = arr.cells_mut(); for _ in 0..taken { i.next(); i.next_back(); } std::mem::forget(i); }
                    "view" => { let v = arr.view((0, 0), (nc.min(taken + 1).min(nc), nr)); std::mem::forget(v); }
                    "view_mut" => { let v = arr.view_mut((0, 0), (nc, nr.min(taken + 1).min(nr))); std::mem::forget(v); }
                    w => panic!("harness: leak_borrow {w}"),
                }
                res_unit()
            }
            "sort_by_row_key" => {
                arr.sort_by_row_key(conc[0], |x| { fault::tick(fault::Site::Key); x.key() });
                res_unit()
            }
            "sort_by_col_key" => {
                arr.sort_by_col_key(conc[0], |x| { fault::tick(fault::Site::Key); x.key() });
                res_unit()
            }
            "sort_row_ord" => {
                arr.sort_row_ord::<()>(conc[0]);
                res_unit()
            }
            "sort_col_ord" => {
                arr.sort_col_ord::<()>(conc[0]);
                res_unit()
            }
            "clone_from_slice" => {
                use toodee::CopyOps;
                arr.clone_from_slice(&supplied);
                drop(supplied);
                res_unit()
            }
            "clone_from_toodee" => {
                use toodee::CopyOps;
                let src: TooDee<T> = TooDee::from_vec(get_u64(a, "nc") as usize, get_u64(a, "nr") as usize, supplied);
                arr.clone_from_toodee(&src);
                drop(src);
                res_unit()
            }
            "clone_from" => {
                let snc = get_u64(a, "nc") as usize;
                let snr = get_u64(a, "nr") as usize;
                let src: TooDee<T> = TooDee::from_vec(snc, snr, supplied);
                arr.clone_from(&src);
                drop(src);
                res_unit()
            }
            "clone" if self.in_fault => {
                let c = (*arr).clone();
                let ids = origins_of(c.data());
                drop(c);
                json!({"k": "ids", "v": ids})
            }
            "from_view" if self.in_fault => {
                let (sc, sr) = get_pair(a, "s");
                let (ec, er) = get_pair(a, "e");
                let t = if a.get("m").and_then(|v| v.as_u64()) == Some(1) {
                    TooDee::<T>::from(arr.view_mut((sc as usize, sr as usize), (ec as usize, er as usize)))
                } else {
                    TooDee::<T>::from(arr.view((sc as usize, sr as usize), (ec as usize, er as usize)))
                };
                let ids = origins_of(t.data());
                drop(t);
                json!({"k": "ids", "v": ids})
            }
            "clone" => {
                use std::hash::{Hash, Hasher};
                let mut c: TooDee<T> = (*arr).clone();
                let mut notes = serde_json::Map::new();
                if c != *arr {
                    notes.insert("not_equal".into(), json!(true));
                }
                if (c.num_cols(), c.num_rows()) != (arr.num_cols(), arr.num_rows()) {
                    notes.insert("dims_differ".into(), json!([c.num_cols(), c.num_rows()]));
                }
                let mut h1 = std::collections::hash_map::DefaultHasher::new();
                let mut h2 = std::collections::hash_map::DefaultHasher::new();
                c.hash(&mut h1);
                arr.hash(&mut h2);
                if h1.finish() != h2.finish() {
                    notes.insert("hash_differs".into(), json!(true));
                }
                let ids = origins_of(c.data());
                if T::HAS_SERIAL {
                    let mine: HashSet<u64> = arr.data().iter().map(|e| e.serial()).collect();
                    if c.data().iter().any(|e| mine.contains(&e.serial())) {
                        notes.insert("shares_elements".into(), json!(true));
                    }
                }
                // independence: mutate the clone, the original must not move
                let before = origins_of(arr.data());
                c.fill(T::make(999_999));
                if origins_of(arr.data()) != before {
                    notes.insert("not_independent".into(), json!(true));
                }
                drop(c);
                let mut r = json!({"k": "ids", "v": ids});
                if !notes.is_empty() {
                    r["notes"] = Value::Object(notes);
                }
                r
            }
            "from_view" => {
                let (sc, sr) = get_pair(a, "s");
                let (ec, er) = get_pair(a, "e");
                let (dims, t) = if a.get("m").and_then(|v| v.as_u64()) == Some(1) {
                    let v = arr.view_mut((sc as usize, sr as usize), (ec as usize, er as usize));
                    (v.size(), TooDee::<T>::from(v))
                } else {
                    let v = arr.view((sc as usize, sr as usize), (ec as usize, er as usize));
                    (v.size(), TooDee::<T>::from(v))
                };
                let ids = origins_of(t.data());
                let ok = t.size() == dims && t.data().len() == dims.0 * dims.1;
                let mut r = json!({"k": "ids", "v": ids});
                if !ok {
                    r["notes"] = json!({"dims": [t.num_cols(), t.num_rows()], "len": t.data().len()});
                }
                // the new array is made of CLONES: none of its elements is one of the window's (a bitwise copy of a
                // Clone-but-not-Copy value is a second owner of the same thing)
                if T::HAS_SERIAL {
                    let mine: HashSet<u64> = arr.data().iter().map(|e| e.serial()).collect();
                    if t.data().iter().any(|e| mine.contains(&e.serial())) {
                        r["notes"] = json!({"shares_elements": true});
                    }
                }
                r
            }
            "into_vec" => {
                let t = *self.arr.take().unwrap();
                let v: Vec<T> = t.into();
                let ids = origins_of(&v);
                self.held.extend(v);
                json!({"k": "ids", "v": ids})
            }
            "into_box" => {
                let t = *self.arr.take().unwrap();
                let b: Box<[T]> = t.into();
                let ids = origins_of(&b);
                self.held.extend(b.into_vec());
                json!({"k": "ids", "v": ids})
            }
            "into_iter" => {
                let t = *self.arr.take().unwrap();
                let it = t.into_iter();
                let n = it.len();
                self.handle = Handle::Into(it);
                json!({"k": "drain", "v": n})
            }
            "drop" => {
                self.arr = None;
                res_unit()
            }
            _ => panic!("harness: unknown op {op}"),
        }
    }
}

/// Strides / dimension / span used to instantiate a wrap-adversarial Big argument of `op`.
fn big_context(op: &str, which: usize, nc: usize, nr: usize, len: usize) -> (Vec<usize>, usize, usize) {
    match op {
        // row-like indices are multiplied by nc
        "insert_row" | "remove_row" | "sort_by_row" | "swap_rows" => (vec![nc], nr, len),
        "set" | "swap" => {
            if which % 2 == 1 { (vec![nc], nr, len) } else { (vec![nc], nc, len) }
        }
        _ => (vec![nc], nc.max(nr), len),
    }
}

/// The arguments of `op` that are coordinates/indices (may be Big), in the order `call` expects.
pub fn index_args(op: &str, a: &Value) -> Vec<u64> {
    match op {
        "new" | "init" | "from_vec" | "from_box" => vec![get_u64(a, "nc"), get_u64(a, "nr")],
        "insert_row" | "insert_col" | "remove_row" | "remove_col" => vec![get_u64(a, "index")],
        "d_nth" | "d_nth_back" | "d_find" => vec![get_u64(a, "n")],
        "set" => vec![get_u64(a, "c"), get_u64(a, "r")],
        "set_flat" => vec![get_u64(a, "i")],
        "swap" => vec![get_u64(a, "c1"), get_u64(a, "r1"), get_u64(a, "c2"), get_u64(a, "r2")],
        "swap_rows" => vec![get_u64(a, "r1"), get_u64(a, "r2")],
        "swap_cols" => vec![get_u64(a, "c1"), get_u64(a, "c2")],
        "translate" => vec![get_u64(a, "mc"), get_u64(a, "mr")],
        "sort_by_row" | "sort_by_row_key" | "sort_row_ord" => vec![get_u64(a, "row")],
        "sort_by_col" | "sort_by_col_key" | "sort_col_ord" => vec![get_u64(a, "col")],
        _ => vec![],
    }
}

fn cartesian(lists: &[Vec<usize>], cap: usize) -> Vec<Vec<usize>> {
    let mut out: Vec<Vec<usize>> = vec![vec![]];
    for l in lists {
        let mut next = Vec::new();
        for prefix in &out {
            for &v in l {
                let mut p = prefix.clone();
                p.push(v);
                next.push(p);
                if next.len() >= cap {
                    break;
                }
            }
            if next.len() >= cap {
                break;
            }
        }
        out = next;
    }
    out
}

fn res_matches<T: CellT>(exp: &Value, got: &Value) -> bool {
    if got.get("notes").is_some()
        || got.get("dead_on_arrival").is_some()
        || got.get("size_hint_mismatch").is_some()
        || got.get("capacity_short").is_some()
    {
        return false;
    }
    if exp.get("k") != got.get("k") {
        return false;
    }
    if !T::HAS_VALUE {
        // only sizes are comparable
        return match exp["k"].as_str().unwrap() {
            "ids" => exp["v"].as_array().map(|x| x.len()) == got["v"].as_array().map(|x| x.len()),
            "val" | "drain" => exp["v"] == got["v"],
            _ => true,
        };
    }
    exp.get("v") == got.get("v")
}

/// Cells of the array whose element is also in the caller's hands (taken from a drain): one element, two owners.
pub fn held_dup<T: CellT + std::hash::Hash>(m: &Machine<T>, o: &Obs) -> usize {
    if !T::HAS_SERIAL || m.held.is_empty() {
        return 0;
    }
    let h: HashSet<u64> = m.held.iter().map(|e| e.serial()).collect();
    o.serials.iter().filter(|s| h.contains(s)).count()
}

/// One trace event: what the real code showed after one public call (Appendix A of DESIGN.md).
pub fn event<T: CellT + std::hash::Hash>(m: &Machine<T>, op: &str, a: &Value, res: &Value, fault: Option<&Value>, fired: bool,
                                     pre: &[u32], supplied: &[u32]) -> Value {
    let observable = m.arr.is_some() && m.handle.is_none();
    let post = if observable {
        let mut o = observe::<T>(m.arr.as_ref().unwrap());
        o.dup += held_dup(m, &o);
        json!({"obs": true, "nc": o.nc.min(i32::MAX as usize) as u64, "nr": o.nr.min(i32::MAX as usize) as u64, "len": o.len.min(i32::MAX as usize) as u64,
               "data": if T::HAS_VALUE { o.data.clone() } else { vec![0u32; o.len.min(64)] },
               "dup": o.dup, "dead": o.dead + o.garbage,
               "ok": o.shape_ok && o.lens_ok && o.index_ok && o.cap_ok && o.redzone_ok})
    } else {
        json!({"obs": false, "nc": 0, "nr": 0, "len": 0, "data": [], "dup": 0, "dead": 0, "ok": !canary::damaged()})
    };
    let live: Vec<u32> = if T::TRACKED {
        let mut v: Vec<u32> = ledger::live_serials().into_iter().filter(|s| !m.forgiven.contains(s)).filter_map(ledger::origin_of).collect();
        v.sort_unstable();
        v
    } else {
        Vec::new()
    };
    let nofault = json!({"kind": "none", "site": "none", "k": 0, "lie": "none"});
    json!({"ev": op, "a": a, "res": res, "post": post,
           "held": if T::HAS_VALUE { origins_of(&m.held) } else { Vec::new() },
           "tracked": T::TRACKED, "valued": T::HAS_VALUE, "live": live,
           "dd": ledger::double_drops().len() as u64 + ledger::garbage_drops() as u64,
           "fault": fault.cloned().unwrap_or(nofault), "fired": fired, "pre": pre, "supplied": supplied})
}

fn lenmode_of(f: &Value) -> LenMode {
    match f["lie"].as_str().unwrap_or("none") {
        "minus1" => LenMode::Minus1,
        "plus1" => LenMode::Plus1,
        "max" => LenMode::Max,
        "flip_down" => LenMode::FlipDown,
        "flip_up" => LenMode::FlipUp,
        _ => LenMode::True,
    }
}

/// Run one history case.  Returns the failures found (empty = conforms).  Every call is also
/// appended to `log` as a trace event for validation against TooDeeTrace.tla.
pub fn run_case<T: CellT + std::hash::Hash>(steps: &[Value], capmode: u8, log: &mut Vec<Value>) -> Vec<Fail> {
    ledger::reset();
    canary::reset();
    fault::disarm();
    let mut m: Machine<T> = Machine::new(capmode);
    let mut fails: Vec<Fail> = Vec::new();
    let zst0 = ledger::zst_counts();
    let mut faulted = false;
    log.push(json!({"ev": "reset"}));

    'steps: for (si, st) in steps.iter().enumerate() {
        let op = st["op"].as_str().expect("harness: op");
        let a = &st["a"];
        let x = &st["x"];
        let idx = index_args(op, a);
        m.afail = st.get("afail").and_then(|v| v.as_u64()).map(|k| k as u32);
        // current shape (for wrap-adversarial instantiation and unchanged-state checks)
        let pre = if m.handle.is_none() { m.arr.as_ref().map(|t| observe::<T>(t)) } else { None };
        let (nc, nr, len) = pre.as_ref().map(|o| (o.nc, o.nr, o.len)).unwrap_or((0, 0, 0));
        if let Some(f) = st.get("fault") {
            // ---- a fault step (C11 / C12): the outcome is judged by the specification's relation ----
            let conc: Vec<usize> = idx.iter().map(|&v| v as usize).collect();
            let pre_cells = u32list(&st["pre"]);
            let supplied = u32list(&st["supplied"]);
            if f["kind"] == "panic_at" {
                fault::arm(fault::Site::parse(f["site"].as_str().unwrap()).expect("fault site"), f["k"].as_u64().unwrap() as u32);
            }
            m.in_fault = true;
            let got = m.call(op, a, &conc, lenmode_of(f));
            m.in_fault = false;
            let fired = fault::fired();
            fault::disarm();
            // the same rule as TooDeeTrace.tla: an armed fault that never fired in a call that returned
            // normally is an ordinary call
            faulted = !(f["kind"] == "panic_at" && !fired && got["k"] != "panic");
            log.push(event::<T>(&m, op, a, &got, Some(f), fired, &pre_cells, &supplied));
            // ---- continuation: keep using the array (only if it is safe to touch at all) ----
            let usable = m.handle.is_none() && m.arr.as_ref().map(|t| {
                let o = observe::<T>(t);
                o.shape_ok && o.dead == 0 && o.garbage == 0 && o.dup == 0
            }).unwrap_or(false);
            if usable {
                let width = m.arr.as_ref().unwrap().num_cols();
                let mut script: Vec<(String, Value)> = Vec::new();
                if width > 0 {
                    let items: Vec<u32> = (0..width as u32).map(|i| 9001 + i).collect();
                    script.push(("push_row".into(), json!({"items": items})));
                    script.push(("remove_col".into(), json!({"index": 0})));
                    script.push(("d_next".into(), json!({"z": 0})));
                    script.push(("d_drop".into(), json!({"z": 0})));
                } else {
                    script.push(("push_col".into(), json!({"items": [9001, 9002]})));
                }
                script.push(("fill".into(), json!({"v": 9100})));
                script.push(("clone".into(), json!({"z": 0})));
                script.push(("drop".into(), json!({"z": 0})));
                for (cop, ca) in script {
                    let cidx: Vec<usize> = index_args(&cop, &ca).iter().map(|&v| v as usize).collect();
                    let got = m.call(&cop, &ca, &cidx, LenMode::True);
                    log.push(event::<T>(&m, &cop, &ca, &got, None, false, &[], &[]));
                }
            }
            break 'steps;
        }
        let lists: Vec<Vec<usize>> = idx
            .iter()
            .enumerate()
            .map(|(w, &v)| {
                let (strides, dim, span) = big_context(op, w, nc, nr, len);
                expand_arg(v, &strides, dim, span)
            })
            .collect();
        let combos = if idx.is_empty() { vec![vec![]] } else { cartesian(&lists, 12) };
        let has_big = idx.iter().any(|&v| is_big(v));
        if has_big && x["res"]["k"] != "panic" {
            panic!("harness: Big argument in an accepted call: {st}");
        }
        for conc in &combos {
            let got = m.call(op, a, conc, LenMode::True);
            log.push(event::<T>(&m, op, a, &got, None, false, &[], &[]));
            if x.is_null() {
                continue; // driver mode: no precomputed expectation, the trace specification judges
            }
            if !res_matches::<T>(&x["res"], &got) {
                fails.push(Fail::new(si, "res", json!({"op": op, "args": a, "concrete": conc, "expected": x["res"], "observed": got})));
                if got["k"] != "panic" && x["res"]["k"] == "panic" && m.arr.is_none() && !is_ctor(op) {
                    return fails;
                }
            }
            // after every concrete call the state must be as the specification says
            check_state::<T>(&m, si, op, x, &mut fails);
            if !fails.is_empty() {
                return fails; // later steps would only echo the first divergence
            }
        }
    }
    // end of history: release everything, then nothing may be live and nothing dropped twice
    m.handle = Handle::None;
    m.arr = None;
    m.held.clear();
    let n = steps.len();
    if T::TRACKED {
        let leaked: Vec<u64> = ledger::live_serials().into_iter().filter(|s| !m.forgiven.contains(s)).collect();
        let o: Vec<u32> = leaked.iter().filter_map(|&s| ledger::origin_of(s)).collect();
        let dd = ledger::double_drops();
        log.push(json!({"ev": "end", "live": o, "dd": dd.len() as u64 + ledger::garbage_drops() as u64, "tracked": true,
                        "redzone_ok": !canary::damaged()}));
        if !faulted {
            if !leaked.is_empty() {
                fails.push(Fail::new(n, "ledger.leak_at_end", json!({"origins": o})));
            }
            if !dd.is_empty() || ledger::garbage_drops() > 0 {
                fails.push(Fail::new(n, "ledger.double_drop", json!({"double": dd, "garbage": ledger::garbage_drops()})));
            }
        }
    } else {
        log.push(json!({"ev": "end", "live": [], "dd": 0, "tracked": false, "redzone_ok": !canary::damaged()}));
    }
    if !T::HAS_VALUE && !faulted {
        let z = ledger::zst_counts();
        if z.0 - zst0.0 != z.1 - zst0.1 {
            fails.push(Fail::new(n, "ledger.zst_count", json!({"created": z.0 - zst0.0, "dropped": z.1 - zst0.1})));
        }
    }
    if canary::damaged() && !faulted {
        fails.push(Fail::new(n, "redzone", json!({})));
    }
    fails
}

fn u32list(v: &Value) -> Vec<u32> {
    v.as_array().map(|l| l.iter().map(|e| e.as_u64().unwrap() as u32).collect()).unwrap_or_default()
}

fn is_ctor(op: &str) -> bool {
    matches!(op, "default" | "with_capacity" | "new" | "init" | "from_vec" | "from_box")
}

fn check_state<T: CellT + std::hash::Hash>(m: &Machine<T>, si: usize, op: &str, x: &Value, fails: &mut Vec<Fail>) {
    if T::TRACKED {
        let dd = ledger::double_drops();
        if !dd.is_empty() || ledger::garbage_drops() > 0 {
            fails.push(Fail::new(si, "ledger.double_drop", json!({"op": op, "double": dd, "garbage": ledger::garbage_drops()})));
        }
    }
    if canary::damaged() {
        fails.push(Fail::new(si, "redzone", json!({"op": op})));
    }
    // values handed to the caller
    if T::HAS_VALUE {
        let held = origins_of(&m.held);
        let exp: Vec<u32> = x["held"].as_array().map(|v| v.iter().map(|e| e.as_u64().unwrap() as u32).collect()).unwrap_or_default();
        if held != exp {
            fails.push(Fail::new(si, "held", json!({"op": op, "expected": exp, "observed": held})));
        }
    }
    let obs_expected = x["obs"].as_bool().unwrap_or(false);
    if !obs_expected {
        // a constructor the specification rejects must not have produced an array; if it did,
        // at least report what shape that array has (C01 / C20)
        if is_ctor(op) && x["res"]["k"] == "panic" {
            if let (Some(t), true) = (&m.arr, m.handle.is_none()) {
                let o = observe::<T>(t);
                if !o.shape_ok {
                    fails.push(Fail::new(si, "shape", json!({"op": op, "observed": o.to_json(), "expected": "no array (rejected)"})));
                }
            }
        }
        return;
    }
    let t = match (&m.arr, m.handle.is_none()) {
        (Some(t), true) => t,
        _ => {
            fails.push(Fail::new(si, "res", json!({"op": op, "note": "array expected to be observable but is not"})));
            return;
        }
    };
    let o = observe::<T>(t);
    let enc = x["nc"].as_u64().unwrap() as usize;
    let enr = x["nr"].as_u64().unwrap() as usize;
    if !o.shape_ok {
        fails.push(Fail::new(si, "shape", json!({"op": op, "observed": o.to_json(), "expected": {"nc": enc, "nr": enr}})));
        return;
    }
    if !o.lens_ok || !o.index_ok || !o.cap_ok {
        fails.push(Fail::new(si, "shape.lens", json!({"op": op, "observed": o.to_json(), "lens": o.lens, "cap_ok": o.cap_ok})));
    }
    if !o.redzone_ok {
        fails.push(Fail::new(si, "redzone", json!({"op": op})));
    }
    let edata: Vec<u32> = x["data"].as_array().unwrap().iter().map(|e| e.as_u64().unwrap() as u32).collect();
    let data_ok = if T::HAS_VALUE { o.data == edata } else { o.len == edata.len() };
    if o.nc != enc || o.nr != enr || !data_ok {
        fails.push(Fail::new(si, "proj", json!({"op": op, "expected": {"nc": enc, "nr": enr, "data": edata}, "observed": o.to_json()})));
    }
    if T::HAS_SERIAL {
        let hd = held_dup(m, &o);
        if o.dup > 0 || hd > 0 || o.dead > 0 || o.garbage > 0 {
            fails.push(Fail::new(si, "ledger.cells", json!({"op": op, "dup": o.dup + hd, "dead": o.dead, "garbage": o.garbage})));
        }
    }
    if T::TRACKED {
        // conservation: live = in the array + with the caller (+ forgiven supplied items of panicked calls)
        let mut reach: HashSet<u64> = o.serials.iter().copied().collect();
        reach.extend(m.held.iter().map(|e| e.serial()));
        let leaked: Vec<u32> = ledger::live_serials()
            .into_iter()
            .filter(|s| !reach.contains(s) && !m.forgiven.contains(s))
            .filter_map(ledger::origin_of)
            .collect();
        if !leaked.is_empty() {
            fails.push(Fail::new(si, "ledger.leak", json!({"op": op, "origins": leaked})));
        }
    }
}
