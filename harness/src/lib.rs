//! Conformance harness binding the TLA+ specification in /verif/spec to the real `toodee` crate.
//!
//! The harness only *observes*: it performs the calls a case (emitted by TLC) or a random driver
//! names, projects the real objects back to the abstract state of the specification, and reports
//! what it saw.  Expected values always come from the specification.
#![allow(clippy::needless_range_loop)]

pub mod canary;
pub mod cells;
pub mod fault;
pub mod ledger;
pub mod util;
pub mod hist;
pub mod acc;
pub mod iter;
pub mod serdefam;
pub mod ctor;
pub mod giant;

#[global_allocator]
static GLOBAL: canary::Canary = canary::Canary;
