//! Fault injection into caller-supplied code (C11): "the k-th call into <site> panics".
use std::cell::Cell;

#[derive(Clone, Copy, PartialEq, Eq, Debug)]
pub enum Site {
    Clone,
    Default,
    Drop,
    Cmp,
    Key,
    IterNext,
    IterNextBack,
    IterLen,
    IntoIter,
    Closure,
    IterDrop,
}

impl Site {
    pub fn parse(s: &str) -> Option<Site> {
        Some(match s {
            "clone" => Site::Clone,
            "default" => Site::Default,
            "drop" => Site::Drop,
            "cmp" => Site::Cmp,
            "key" => Site::Key,
            "next" => Site::IterNext,
            "next_back" => Site::IterNextBack,
            "len" => Site::IterLen,
            "into_iter" => Site::IntoIter,
            "closure" => Site::Closure,
            "iter_drop" => Site::IterDrop,
            _ => return None,
        })
    }
}

thread_local! {
    static ARMED: Cell<Option<(Site, u32)>> = const { Cell::new(None) };
    static FIRED: Cell<bool> = const { Cell::new(false) };
    static CALLS: Cell<[u32; 11]> = const { Cell::new([0; 11]) };
}

pub struct InjectedPanic;

/// Arm: the `k`-th (0-based) call into `site` from now on panics, once.
pub fn arm(site: Site, k: u32) {
    ARMED.with(|a| a.set(Some((site, k))));
    FIRED.with(|f| f.set(false));
}

pub fn disarm() {
    ARMED.with(|a| a.set(None));
}

pub fn fired() -> bool {
    FIRED.with(|f| f.get())
}

pub fn reset_counts() {
    CALLS.with(|c| c.set([0; 11]));
}

pub fn calls(site: Site) -> u32 {
    CALLS.with(|c| c.get()[site as usize])
}

/// Called by the instrumented caller-side code at each entry.
pub fn tick(site: Site) {
    CALLS.with(|c| {
        let mut v = c.get();
        v[site as usize] += 1;
        c.set(v);
    });
    let fire = ARMED.with(|a| match a.get() {
        Some((s, k)) if s == site => {
            if k == 0 {
                a.set(None);
                true
            } else {
                a.set(Some((s, k - 1)));
                false
            }
        }
        _ => false,
    });
    if fire {
        FIRED.with(|f| f.set(true));
        std::panic::panic_any(InjectedPanic);
    }
}
