//! Interpreter for the giant family (`Giant.tla`): arrays of the zero-sized type `()` with one
//! dimension of h*U + l cells for several huge units U.  Cells carry no value, so only the kind of
//! every result (some / none / row of n / len / panic / window size) is compared - which is all the
//! specification says about them.
use crate::util::*;
use serde_json::{json, Value};
use toodee::{TooDee, TooDeeOps, TooDeeOpsMut};

const UNITS: [u128; 5] = [1 << 31, 1 << 32, 1 << 40, 1 << 61, 1 << 62];

fn val(n: &Value, u: u128) -> Option<usize> {
    let h = n["h"].as_i64().unwrap() as i128;
    let l = n["l"].as_i64().unwrap() as i128;
    if h >= 1000 {
        return Some(usize::MAX);
    }
    let v = h * u as i128 + l;
    if v < 0 || v > usize::MAX as i128 {
        None
    } else {
        Some(v as usize)
    }
}

fn kind_of<T>(r: Result<Option<T>, ()>, f: impl Fn(&T) -> Value) -> Value {
    match r {
        Err(()) => json!({"k": "panic"}),
        Ok(None) => json!({"k": "none"}),
        Ok(Some(x)) => f(&x),
    }
}

fn res_eq(exp: &Value, got: &Value, u: u128) -> bool {
    if exp["k"] != got["k"] {
        return false;
    }
    match exp["k"].as_str().unwrap() {
        "row" => val(&exp["n"], u).map(|n| got["n"] == json!(n)).unwrap_or(false),
        "val" => val(&exp["v"], u).map(|n| got["v"] == json!(n)).unwrap_or(false),
        "grid" => val(&exp["nc"], u).map(|n| got["nc"] == json!(n)).unwrap_or(false) && val(&exp["nr"], u).map(|n| got["nr"] == json!(n)).unwrap_or(false),
        _ => true,
    }
}

fn drive_iter<'a, I>(mut it: I, calls: &[Value], u: u128, index: Option<&dyn Fn(&I, usize) -> ()>, fails: &mut Vec<Fail>, what: &str,
                     lo: &Value, hi: &Value) -> bool
where
    I: DoubleEndedIterator + ExactSizeIterator,
    I::Item: ItemLen,
{
    for (ci, call) in calls.iter().enumerate() {
        let op = call["op"].as_str().unwrap();
        let n = match val(&call["n"], u) {
            Some(n) => n,
            None => return false, // this unit cannot represent the argument
        };
        let shape = |x: &I::Item| x.shape();
        let got = match op {
            "next" => kind_of(guarded(|| it.next()), shape),
            "next_back" => kind_of(guarded(|| it.next_back()), shape),
            "nth" => kind_of(guarded(|| it.nth(n)), shape),
            "nth_back" => kind_of(guarded(|| it.nth_back(n)), shape),
            "len" => match guarded(|| (it.len(), it.size_hint())) {
                Ok((l, sh)) if sh == (l, Some(l)) => json!({"k": "val", "v": l}),
                Ok((l, sh)) => json!({"k": "val", "v": l, "size_hint": [sh.0, sh.1]}),
                Err(()) => json!({"k": "panic"}),
            },
            "index" => match guarded(|| index.expect("index")(&it, n)) {
                Ok(()) => json!({"k": "some"}),
                Err(()) => json!({"k": "panic"}),
            },
            o => panic!("harness: giant op {o}"),
        };
        if !res_eq(&call["x"]["res"], &got, u) || got.get("size_hint").is_some() {
            fails.push(Fail::new(ci, "res", json!({"receiver": what, "unit_log2": 127 - u.leading_zeros(), "op": op, "n": n,
                "expected": call["x"]["res"], "observed": got})));
            return true;
        }
        if got["k"] == "panic" && op != "index" {
            return true;
        }
    }
    if let (Some(l), Some(h)) = (val(lo, u), val(hi, u)) {
        let rem = guarded(|| it.len());
        if rem != Ok(h - l) {
            fails.push(Fail::new(calls.len(), "remaining", json!({"receiver": what, "unit_log2": 127 - u.leading_zeros(),
                "expected_len": h - l, "observed_len": rem.ok()})));
        }
    }
    true
}

pub trait ItemLen {
    fn shape(&self) -> Value;
}
impl<'a> ItemLen for &'a [()] {
    fn shape(&self) -> Value {
        json!({"k": "row", "n": self.len()})
    }
}
impl<'a> ItemLen for &'a mut [()] {
    fn shape(&self) -> Value {
        json!({"k": "row", "n": self.len()})
    }
}
impl<'a> ItemLen for &'a () {
    fn shape(&self) -> Value {
        json!({"k": "some"})
    }
}
impl<'a> ItemLen for &'a mut () {
    fn shape(&self) -> Value {
        json!({"k": "some"})
    }
}

/// Giant arrays of BYTES (unit 2^32 only: 4 to 13 GiB of address space, never touched).  Zero-sized cells all live at one
/// address, so an accessor that computes the wrong offset inside a giant array is invisible on them; with one-byte cells
/// the address of the reference IS the cell's identity: &x[(c, r)] must be base + r * stride + c.
fn run_bytes(case: &Value, nc: usize, nr: usize, fails: &mut Vec<Fail>) {
    const U: u128 = 1 << 32;
    let cells = match nc.checked_mul(nr) {
        Some(n) if n <= 3 * ((1usize << 32) + 64) => n,
        _ => return,
    };
    // fallible: where the address space (or the overcommit policy) does not allow such a block, the probe is skipped
    let mut bytes: Vec<u8> = Vec::new();
    if bytes.try_reserve_exact(cells).is_err() {
        return;
    }
    unsafe { bytes.set_len(cells) }; // (blocks of this size come zeroed from the pass-through allocator and are never read)
    let built = guarded(|| TooDee::<u8>::from_vec(nc, nr, bytes));
    let mut t = match built {
        Ok(t) => t,
        Err(()) => return,
    };
    let base = t.data().as_ptr() as usize;
    let mut at = |what: &str, got: Result<usize, ()>, want: usize, fails: &mut Vec<Fail>| {
        if let Ok(a) = got {
            if a != want {
                fails.push(Fail::new(0, "res", json!({"receiver": what, "cells": "u8", "dims": [nc, nr], "expected_offset": want - base,
                    "observed_offset": a.wrapping_sub(base)})));
            }
        }
    };
    match case["t"].as_str().unwrap() {
        "acc" => {
            let (c, r) = match (val(&case["c"], U), val(&case["r"], U)) {
                (Some(c), Some(r)) => (c, r),
                _ => return,
            };
            if c < nc && r < nr {
                let want = base + r * nc + c;
                at("TooDee<u8>[(c,r)]", guarded(|| &t[(c, r)] as *const u8 as usize), want, fails);
                at("TooDee<u8>[r][c]", guarded(|| &t[r][c] as *const u8 as usize), want, fails);
                at("TooDee<u8>.col(c)[r]", guarded(|| &t.col(c)[r] as *const u8 as usize), want, fails);
                at("TooDeeView<u8>[(c,r)]", guarded(|| { let v = t.view((0, 0), (nc, nr)); &v[(c, r)] as *const u8 as usize }), want, fails);
                at("TooDeeViewMut<u8>[(c,r)]", guarded(|| { let mut v = t.view_mut((0, 0), (nc, nr)); &mut v[(c, r)] as *mut u8 as usize }), want, fails);
                at("TooDeeView<u8>.get_unchecked", guarded(|| { let v = t.view((0, 0), (nc, nr)); unsafe { v.get_unchecked((c, r)) as *const u8 as usize } }), want, fails);
            }
            // the same row through a narrow window (2 columns starting at column 1): stride = nc, width 2
            if nc >= 3 && r < nr {
                for cc in 0..2usize {
                    let want = base + r * nc + 1 + cc;
                    at("narrow TooDeeView<u8>[(c,r)]", guarded(|| { let v = t.view((1, 0), (3, nr)); &v[(cc, r)] as *const u8 as usize }), want, fails);
                    at("narrow TooDeeView<u8>[r][c]", guarded(|| { let v = t.view((1, 0), (3, nr)); &v[r][cc] as *const u8 as usize }), want, fails);
                    at("narrow TooDeeView<u8>.col(c)[r]", guarded(|| { let v = t.view((1, 0), (3, nr)); &v.col(cc)[r] as *const u8 as usize }), want, fails);
                    at("narrow TooDeeViewMut<u8>[(c,r)]", guarded(|| { let mut v = t.view_mut((1, 0), (3, nr)); &mut v[(cc, r)] as *mut u8 as usize }), want, fails);
                    at("narrow TooDeeViewMut<u8>.get_unchecked_mut", guarded(|| { let mut v = t.view_mut((1, 0), (3, nr)); unsafe { v.get_unchecked_mut((cc, r)) as *mut u8 as usize } }), want, fails);
                }
            }
        }
        "view" => {
            let (s, e) = (&case["s"], &case["e"]);
            let (sc, sr, ec, er) = match (val(&s[0], U), val(&s[1], U), val(&e[0], U), val(&e[1], U)) {
                (Some(a), Some(b), Some(c), Some(d)) => (a, b, c, d),
                _ => return,
            };
            if case["x"]["res"]["k"] != "grid" || sc >= ec || sr >= er {
                return;
            }
            let (w, h) = (ec - sc, er - sr);
            at("view<u8> first cell", guarded(|| { let v = t.view((sc, sr), (ec, er)); &v[(0, 0)] as *const u8 as usize }), base + sr * nc + sc, fails);
            at("view<u8> last cell", guarded(|| { let v = t.view((sc, sr), (ec, er)); &v[(w - 1, h - 1)] as *const u8 as usize }),
               base + (er - 1) * nc + ec - 1, fails);
            at("view_mut<u8> last cell", guarded(|| { let mut v = t.view_mut((sc, sr), (ec, er)); &mut v[(w - 1, h - 1)] as *mut u8 as usize }),
               base + (er - 1) * nc + ec - 1, fails);
            at("view of view<u8> last cell", guarded(|| { let v0 = t.view((0, 0), (nc, nr)); let v = v0.view((sc, sr), (ec, er)); &v[(w - 1, h - 1)] as *const u8 as usize }),
               base + (er - 1) * nc + ec - 1, fails);
            at("view<u8> last row", guarded(|| { let v = t.view((sc, sr), (ec, er)); v.rows().next_back().unwrap().as_ptr() as usize }),
               base + (er - 1) * nc + sc, fails);
        }
        _ => {}
    }
}

pub fn run_case(case: &Value) -> Vec<Fail> {
    let mut fails = Vec::new();
    let mut ran = 0;
    for &u in UNITS.iter() {
        let (nc, nr) = match (val(&case["nc"], u), val(&case["nr"], u)) {
            (Some(c), Some(r)) => (c, r),
            _ => continue,
        };
        let cells = match nc.checked_mul(nr) {
            Some(n) => n,
            None => continue,
        };
        let built = guarded(|| TooDee::<()>::from_vec(nc, nr, vec![(); cells]));
        let mut t = match built {
            Ok(t) => t,
            Err(()) => {
                fails.push(Fail::new(0, "create", json!({"nc": nc, "nr": nr})));
                return fails;
            }
        };
        ran += 1;
        if u == 1 << 32 && std::env::var("VERIF_NO_GIANT_BYTES").is_err() {
            run_bytes(case, nc, nr, &mut fails);
            if !fails.is_empty() {
                return fails;
            }
        }
        match case["t"].as_str().unwrap() {
            "iter" => {
                let calls = case["calls"].as_array().unwrap();
                let col = val(&case["col"], u);
                let (lo, hi) = (&case["lo"], &case["hi"]);
                let win = case.get("win").and_then(|v| v.as_u64()).unwrap_or(0) as usize;
                if win > 0 {
                    // a narrow window of a giant array: few columns, giant stride
                    match case["kind"].as_str().unwrap() {
                        "rows" => {
                            {
                                let v = t.view((1, 0), (1 + win, nr));
                                drive_iter(v.rows(), calls, u, None, &mut fails, "narrow TooDeeView::rows", lo, hi);
                            }
                            if fails.is_empty() {
                                let mut v = t.view_mut((1, 0), (1 + win, nr));
                                drive_iter(v.rows_mut(), calls, u, None, &mut fails, "narrow TooDeeViewMut::rows_mut", lo, hi);
                            }
                        }
                        "col" => {
                            let c = match col {
                                Some(c) => c,
                                None => continue,
                            };
                            {
                                let v = t.view((1, 0), (1 + win, nr));
                                drive_iter(v.col(c), calls, u, Some(&|i, n| i[n]), &mut fails, "narrow TooDeeView::col", lo, hi);
                            }
                            if fails.is_empty() {
                                let mut v = t.view_mut((1, 0), (1 + win, nr));
                                drive_iter(v.col_mut(c), calls, u, Some(&|i, n| i[n]), &mut fails, "narrow TooDeeViewMut::col_mut", lo, hi);
                            }
                        }
                        _ => {
                            {
                                let v = t.view((1, 0), (1 + win, nr));
                                drive_iter(v.cells(), calls, u, None, &mut fails, "narrow TooDeeView::cells", lo, hi);
                            }
                            if fails.is_empty() {
                                let mut v = t.view_mut((1, 0), (1 + win, nr));
                                drive_iter(v.cells_mut(), calls, u, None, &mut fails, "narrow TooDeeViewMut::cells_mut", lo, hi);
                            }
                        }
                    }
                    if !fails.is_empty() {
                        return fails;
                    }
                    continue;
                }
                match case["kind"].as_str().unwrap() {
                    "rows" => {
                        drive_iter(t.rows(), calls, u, None, &mut fails, "TooDee::rows", lo, hi);
                        if fails.is_empty() {
                            let v = t.view((0, 0), (nc, nr));
                            drive_iter(v.rows(), calls, u, None, &mut fails, "TooDeeView::rows", lo, hi);
                        }
                        if fails.is_empty() {
                            drive_iter(t.rows_mut(), calls, u, None, &mut fails, "TooDee::rows_mut", lo, hi);
                        }
                        if fails.is_empty() {
                            let mut v = t.view_mut((0, 0), (nc, nr));
                            drive_iter(v.rows_mut(), calls, u, None, &mut fails, "TooDeeViewMut::rows_mut", lo, hi);
                        }
                    }
                    "col" => {
                        let c = match col {
                            Some(c) => c,
                            None => continue,
                        };
                        drive_iter(t.col(c), calls, u, Some(&|i, n| i[n]), &mut fails, "TooDee::col", lo, hi);
                        if fails.is_empty() {
                            let v = t.view((0, 0), (nc, nr));
                            drive_iter(v.col(c), calls, u, Some(&|i, n| i[n]), &mut fails, "TooDeeView::col", lo, hi);
                        }
                        if fails.is_empty() {
                            drive_iter(t.col_mut(c), calls, u, Some(&|i, n| i[n]), &mut fails, "TooDee::col_mut", lo, hi);
                        }
                        if fails.is_empty() {
                            let mut v = t.view_mut((0, 0), (nc, nr));
                            drive_iter(v.col_mut(c), calls, u, Some(&|i, n| i[n]), &mut fails, "TooDeeViewMut::col_mut", lo, hi);
                        }
                    }
                    _ => {
                        drive_iter(t.cells(), calls, u, None, &mut fails, "TooDee::cells", lo, hi);
                        if fails.is_empty() {
                            let v = t.view((0, 0), (nc, nr));
                            drive_iter(v.cells(), calls, u, None, &mut fails, "TooDeeView::cells", lo, hi);
                        }
                        if fails.is_empty() {
                            drive_iter(t.cells_mut(), calls, u, None, &mut fails, "TooDee::cells_mut", lo, hi);
                        }
                    }
                }
            }
            "acc" => {
                let (c, r) = match (val(&case["c"], u), val(&case["r"], u)) {
                    (Some(c), Some(r)) => (c, r),
                    _ => continue,
                };
                let op = case["op"].as_str().unwrap();
                let exp = &case["x"]["res"];
                let mut probe = |what: &str, got: Result<(), ()>| {
                    let g = if got.is_ok() { "some" } else { "panic" };
                    if exp["k"] != g {
                        fails.push(Fail::new(0, "res", json!({"receiver": what, "unit_log2": 127 - u.leading_zeros(), "op": op,
                            "c": c, "r": r, "dims": [nc, nr], "expected": exp, "observed": g})));
                    }
                };
                match op {
                    "idx_coord" => {
                        probe("TooDee", guarded(|| { let _ = &t[(c, r)]; }));
                        probe("TooDeeView", guarded(|| { let v = t.view((0, 0), (nc, nr)); let _ = &v[(c, r)]; }));
                        probe("TooDeeViewMut", guarded(|| { let mut v = t.view_mut((0, 0), (nc, nr)); v[(c, r)] = (); }));
                    }
                    "idx_row" => {
                        probe("TooDee", guarded(|| { let _ = &t[r][c]; }));
                        probe("TooDeeView", guarded(|| { let v = t.view((0, 0), (nc, nr)); let _ = &v[r][c]; }));
                        probe("TooDeeViewMut", guarded(|| { let mut v = t.view_mut((0, 0), (nc, nr)); v[r][c] = (); }));
                    }
                    _ => {
                        probe("TooDee", guarded(|| { let _ = &t.col(c)[r]; }));
                        probe("TooDeeView", guarded(|| { let v = t.view((0, 0), (nc, nr)); let _ = &v.col(c)[r]; }));
                        probe("TooDee::col_mut", guarded(|| { let mut cm = t.col_mut(c); cm[r] = (); }));
                    }
                }
            }
            "view" => {
                let s = &case["s"];
                let e = &case["e"];
                let coords = (val(&s[0], u), val(&s[1], u), val(&e[0], u), val(&e[1], u));
                let (sc, sr, ec, er) = match coords {
                    (Some(a), Some(b), Some(c), Some(d)) => (a, b, c, d),
                    _ => continue,
                };
                let exp = &case["x"]["res"];
                let op = case["op"].as_str().unwrap();
                let got = if op == "view" {
                    guarded(|| { let v = t.view((sc, sr), (ec, er)); (v.num_cols(), v.num_rows(), v.rows().len()) })
                } else {
                    guarded(|| { let v = t.view_mut((sc, sr), (ec, er)); (v.num_cols(), v.num_rows(), v.rows().len()) })
                };
                let g = match got {
                    Err(()) => json!({"k": "panic"}),
                    Ok((c, r, rl)) if rl == r => json!({"k": "grid", "nc": c, "nr": r}),
                    Ok((c, r, rl)) => json!({"k": "grid", "nc": c, "nr": r, "rows_len": rl}),
                };
                if !res_eq(exp, &g, u) || g.get("rows_len").is_some() {
                    fails.push(Fail::new(0, "res", json!({"unit_log2": 127 - u.leading_zeros(), "op": op, "request": [sc, sr, ec, er],
                        "dims": [nc, nr], "expected": exp, "observed": g})));
                }
                // nested: the same request through a full view of the array
                if fails.is_empty() && op == "view" {
                    let got2 = guarded(|| { let v0 = t.view((0, 0), (nc, nr)); let v = v0.view((sc, sr), (ec, er)); (v.num_cols(), v.num_rows()) });
                    let g2 = match got2 { Err(()) => json!({"k": "panic"}), Ok((c, r)) => json!({"k": "grid", "nc": c, "nr": r}) };
                    if !res_eq(exp, &g2, u) {
                        fails.push(Fail::new(0, "res", json!({"unit_log2": 127 - u.leading_zeros(), "op": "view of view", "request": [sc, sr, ec, er],
                            "dims": [nc, nr], "expected": exp, "observed": g2})));
                    }
                }
            }
            x => panic!("harness: giant case type {x}"),
        }
        if !fails.is_empty() {
            return fails;
        }
    }
    if ran == 0 {
        fails.push(Fail::new(0, "harness.no_unit", json!({"note": "no unit could represent this case"})));
    }
    fails
}
