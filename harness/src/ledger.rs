//! Ownership ledger: every `Elem` ever created is registered with a serial number; its
//! destructor records the drop.  From the ledger the harness derives what the specification
//! talks about in C05/C11/C12: which elements are live, which were dropped twice, and whether a
//! cell of the array holds something that was never created (uninitialised memory) or is
//! already dead.
use std::cell::RefCell;

#[derive(Clone, Copy)]
pub struct Entry {
    pub origin: u32,
    pub drops: u32,
}

#[derive(Default)]
pub struct Ledger {
    pub entries: Vec<Entry>, // index = serial - 1
    pub garbage_drops: u32,  // destructor ran on something that was never created
    pub zst_created: u64,
    pub zst_dropped: u64,
}

thread_local! {
    static LEDGER: RefCell<Ledger> = RefCell::new(Ledger::default());
}

pub fn reset() {
    LEDGER.with(|l| *l.borrow_mut() = Ledger::default());
}

pub fn create(origin: u32) -> u64 {
    LEDGER.with(|l| {
        let mut l = l.borrow_mut();
        l.entries.push(Entry { origin, drops: 0 });
        l.entries.len() as u64
    })
}

pub fn on_drop(serial: u64, magic_ok: bool) {
    LEDGER.with(|l| {
        let mut l = l.borrow_mut();
        if !magic_ok || serial == 0 || serial as usize > l.entries.len() {
            l.garbage_drops += 1;
        } else {
            l.entries[serial as usize - 1].drops += 1;
        }
    })
}

pub fn zst_create() {
    LEDGER.with(|l| l.borrow_mut().zst_created += 1)
}
pub fn zst_drop() {
    LEDGER.with(|l| l.borrow_mut().zst_dropped += 1)
}
pub fn zst_counts() -> (u64, u64) {
    LEDGER.with(|l| {
        let l = l.borrow();
        (l.zst_created, l.zst_dropped)
    })
}

/// `Some(true)` live, `Some(false)` dropped, `None` unknown serial (garbage).
pub fn is_live(serial: u64) -> Option<bool> {
    LEDGER.with(|l| {
        let l = l.borrow();
        if serial == 0 || serial as usize > l.entries.len() {
            None
        } else {
            Some(l.entries[serial as usize - 1].drops == 0)
        }
    })
}

pub fn count() -> u64 {
    LEDGER.with(|l| l.borrow().entries.len() as u64)
}

/// Serial numbers of all live elements.
pub fn live_serials() -> Vec<u64> {
    LEDGER.with(|l| {
        l.borrow().entries.iter().enumerate().filter(|(_, e)| e.drops == 0).map(|(i, _)| i as u64 + 1).collect()
    })
}

pub fn origin_of(serial: u64) -> Option<u32> {
    LEDGER.with(|l| l.borrow().entries.get(serial as usize - 1).map(|e| e.origin))
}

/// Origins of all live elements, sorted (a bag).
pub fn live_origins() -> Vec<u32> {
    LEDGER.with(|l| {
        let mut v: Vec<u32> = l.borrow().entries.iter().filter(|e| e.drops == 0).map(|e| e.origin).collect();
        v.sort_unstable();
        v
    })
}

/// (serial, origin, drops) of everything dropped more than once.
pub fn double_drops() -> Vec<(u64, u32, u32)> {
    LEDGER.with(|l| {
        l.borrow()
            .entries
            .iter()
            .enumerate()
            .filter(|(_, e)| e.drops > 1)
            .map(|(i, e)| (i as u64 + 1, e.origin, e.drops))
            .collect()
    })
}

pub fn garbage_drops() -> u32 {
    LEDGER.with(|l| l.borrow().garbage_drops)
}

/// Serial numbers dropped so far (drops >= 1) - used to compute per-step drop deltas.
pub fn dropped_count() -> u64 {
    LEDGER.with(|l| l.borrow().entries.iter().map(|e| e.drops as u64).sum())
}
