//! Interpreter for the serde family (`Serde.tla`): abstract documents are rendered to JSON text /
//! `serde_json::Value` and fed to all four transports (C19); grids are round-tripped through every
//! serialiser x deserialiser pair with several element types (C18).
use crate::util::*;
use serde::de::DeserializeOwned;
use serde::Serialize;
use serde_json::{json, Value};
use toodee::{TooDee, TooDeeOps, TooDeeOpsMut};

fn dim_text(tok: u64) -> String {
    match tok {
        1001 => "4294967296".into(),
        1002 => "9223372036854775808".into(),
        1003 => "18446744073709551615".into(),
        2001 => "18446744073709551616".into(),
        2002 => "-1".into(),
        2003 => "1.5".into(),
        2004 => "\"2\"".into(),
        2005 => "null".into(),
        n => n.to_string(),
    }
}

/// the same data token for an array of `()` cells: `null` per element
fn data_text_unit(d: &Value) -> String {
    if d["t"] == "notarr" {
        return "7".into();
    }
    let n = d["n"].as_u64().unwrap();
    let bad = d["bad"].as_u64().unwrap();
    let items: Vec<String> = (1..=n).map(|i| if i == bad { "\"x\"".to_string() } else { "null".to_string() }).collect();
    format!("[{}]", items.join(","))
}

fn data_text(d: &Value) -> String {
    if d["t"] == "notarr" {
        return "7".into();
    }
    let n = d["n"].as_u64().unwrap();
    let bad = d["bad"].as_u64().unwrap();
    let items: Vec<String> = (1..=n).map(|i| if i == bad { "\"x\"".to_string() } else { i.to_string() }).collect();
    format!("[{}]", items.join(","))
}

fn key_text(k: &str, escaped: bool) -> String {
    if escaped {
        // the same key, written with an escape: the parser cannot hand it out as a borrowed string
        format!("\"{}\"", k.replacen('_', "\\u005f", 1).replacen('a', "\\u0061", 1))
    } else {
        format!("\"{k}\"")
    }
}

/// the spelling of an unknown field name: short, long ASCII, long with multi-byte characters at various offsets, escapes
fn unknown_key(variant: usize) -> String {
    match variant % 6 {
        0 => "extra".to_string(),
        1 => "x".repeat(100),
        2 => format!("a{}", "\u{e9}".repeat(40)),
        3 => "\u{e9}".repeat(45),
        4 => format!("{}{}", "k".repeat(63), "\u{1F600}".repeat(4)),
        _ => "num_cols ".to_string(),
    }
}

fn render(doc: &Value, escaped: bool) -> String {
    render_v(doc, escaped, 0)
}

fn render_v(doc: &Value, escaped: bool, variant: usize) -> String {
    match doc["top"].as_str().unwrap() {
        "array" => {
            // the bare class ("tops" stratum) or a positional document: items are dimension or data tokens
            let l = doc["fields"].as_array().cloned().unwrap_or_default();
            let items: Vec<String> = l.iter().map(|f| if f["val"].is_object() { data_text(&f["val"]) } else { dim_text(f["val"].as_u64().unwrap()) }).collect();
            format!("[{}]", items.join(","))
        }
        "number" => "42".into(),
        "string" => "\"toodee\"".into(),
        "null" => "null".into(),
        _ => {
            let fields: Vec<String> = doc["fields"]
                .as_array()
                .unwrap()
                .iter()
                .map(|f| {
                    let k = f["key"].as_str().unwrap();
                    let v = match k {
                        "num_cols" | "num_rows" => dim_text(f["val"].as_u64().unwrap()),
                        "data" => data_text(&f["val"]),
                        _ => "7".to_string(),
                    };
                    if k == "extra" {
                        format!("{}:{}", serde_json::to_string(&unknown_key(variant)).unwrap(), v)
                    } else {
                        format!("{}:{}", key_text(k, escaped), v)
                    }
                })
                .collect();
            format!("{{{}}}", fields.join(","))
        }
    }
}

fn has_duplicate_keys(doc: &Value) -> bool {
    let mut seen = std::collections::HashSet::new();
    doc["fields"].as_array().map(|l| l.iter().any(|f| !seen.insert(f["key"].as_str().unwrap().to_string()))).unwrap_or(false)
}

#[derive(Debug)]
enum DeOut {
    Ok(usize, usize, Vec<u32>, bool),
    Err(String),
    Panic,
    /// in place only: the call failed and left the destination with dimensions that disagree with its cells
    PlaceBroken(usize, usize, usize),
}

fn observe(r: Result<Result<TooDee<u32>, serde_json::Error>, ()>) -> DeOut {
    match r {
        Err(()) => DeOut::Panic,
        Ok(Err(e)) => DeOut::Err(e.to_string()),
        Ok(Ok(t)) => {
            let (nc, nr) = (t.num_cols(), t.num_rows());
            let shape_ok = nc.checked_mul(nr) == Some(t.data().len()) && ((nc == 0) == (nr == 0));
            DeOut::Ok(nc, nr, t.data().to_vec(), shape_ok)
        }
    }
}

/// A length-prefixed, typed data format in miniature (the shape of bincode / postcard / MessagePack readers): maps and
/// sequences announce their length up front, and `SeqAccess::size_hint` reports that announced length - which is document
/// content, not a fact about the input actually present.  `hint` lets the announced length differ from the elements that
/// follow (a truncated or hostile document).
mod prefixed {
    use serde::de::value::Error;
    use serde::de::{DeserializeSeed, Deserializer, IntoDeserializer, MapAccess, SeqAccess, Visitor};
    use serde::forward_to_deserialize_any;

    #[derive(Clone)]
    pub enum Val {
        U(u64),
        Seq { hint: Option<usize>, items: Vec<u32> },
    }
    #[derive(Clone)]
    pub struct Doc(pub Vec<(String, Val)>);

    impl<'de> Deserializer<'de> for Doc {
        type Error = Error;
        fn deserialize_any<V: Visitor<'de>>(self, v: V) -> Result<V::Value, Error> {
            v.visit_map(DocMap { it: self.0.into_iter(), cur: None })
        }
        forward_to_deserialize_any! { bool i8 i16 i32 i64 i128 u8 u16 u32 u64 u128 f32 f64 char str string bytes byte_buf option unit
            unit_struct newtype_struct seq tuple tuple_struct map struct enum identifier ignored_any }
    }
    struct DocMap {
        it: std::vec::IntoIter<(String, Val)>,
        cur: Option<Val>,
    }
    impl<'de> MapAccess<'de> for DocMap {
        type Error = Error;
        fn next_key_seed<K: DeserializeSeed<'de>>(&mut self, seed: K) -> Result<Option<K::Value>, Error> {
            match self.it.next() {
                Some((k, v)) => {
                    self.cur = Some(v);
                    seed.deserialize(k.into_deserializer()).map(Some)
                }
                None => Ok(None),
            }
        }
        fn next_value_seed<S: DeserializeSeed<'de>>(&mut self, seed: S) -> Result<S::Value, Error> {
            seed.deserialize(ValDe(self.cur.take().expect("value before key")))
        }
        fn size_hint(&self) -> Option<usize> {
            Some(self.it.len())
        }
    }
    struct ValDe(Val);
    impl<'de> Deserializer<'de> for ValDe {
        type Error = Error;
        fn deserialize_any<V: Visitor<'de>>(self, v: V) -> Result<V::Value, Error> {
            match self.0 {
                Val::U(n) => v.visit_u64(n),
                Val::Seq { hint, items } => v.visit_seq(LSeq { hint, it: items.into_iter() }),
            }
        }
        forward_to_deserialize_any! { bool i8 i16 i32 i64 i128 u8 u16 u32 u64 u128 f32 f64 char str string bytes byte_buf option unit
            unit_struct newtype_struct seq tuple tuple_struct map struct enum identifier ignored_any }
    }
    struct LSeq {
        hint: Option<usize>,
        it: std::vec::IntoIter<u32>,
    }
    impl<'de> SeqAccess<'de> for LSeq {
        type Error = Error;
        fn next_element_seed<S: DeserializeSeed<'de>>(&mut self, seed: S) -> Result<Option<S::Value>, Error> {
            match self.it.next() {
                Some(x) => seed.deserialize(x.into_deserializer()).map(Some),
                None => Ok(None),
            }
        }
        fn size_hint(&self) -> Option<usize> {
            self.hint
        }
    }
}

/// the abstract document in the length-prefixed format, if it is expressible there (typed: no ill-typed values)
fn prefixed_doc(doc: &Value, hint: Option<usize>) -> Option<prefixed::Doc> {
    if doc["top"] != "object" {
        return None;
    }
    let mut fields = Vec::new();
    for f in doc["fields"].as_array()? {
        let k = f["key"].as_str()?;
        let v = match k {
            "num_cols" | "num_rows" => {
                let tok = f["val"].as_u64()?;
                prefixed::Val::U(match tok {
                    1001 => 1u64 << 32,
                    1002 => 1u64 << 63,
                    1003 => u64::MAX,
                    t if t < 1000 => t,
                    _ => return None,
                })
            }
            "data" => {
                let d = &f["val"];
                if d["t"] != "arr" || d["bad"].as_u64()? != 0 {
                    return None;
                }
                prefixed::Val::Seq { hint, items: (1..=d["n"].as_u64()? as u32).collect() }
            }
            _ => prefixed::Val::U(7),
        };
        fields.push((if k == "extra" { unknown_key(0) } else { k.to_string() }, v));
    }
    Some(prefixed::Doc(fields))
}

fn in_place_priors() -> Vec<(&'static str, TooDee<u32>)> {
    // every cell count a small document can state (0, 1, 2, 3, 4, 6, 9) and a larger one, in two orientations
    let mut v: Vec<(&'static str, TooDee<u32>)> = vec![("empty", TooDee::default())];
    for (n, c, r) in [("1x1", 1usize, 1usize), ("2x1", 2, 1), ("1x2", 1, 2), ("3x1", 3, 1), ("2x2", 2, 2), ("3x2", 3, 2), ("2x3", 2, 3), ("3x3", 3, 3), ("4x3", 4, 3)] {
        v.push((n, TooDee::from_vec(c, r, (0..(c * r) as u32).map(|i| 901 + i).collect())));
    }
    v
}

fn observe_in_place(text: &str, prior: TooDee<u32>) -> DeOut {
    use serde::Deserialize;
    let mut place = prior;
    let r = guarded(|| {
        let mut de = serde_json::Deserializer::from_str(text);
        let r = <TooDee<u32> as Deserialize>::deserialize_in_place(&mut de, &mut place);
        match r {
            Ok(()) => de.end(),
            Err(e) => Err(e),
        }
    });
    let (nc, nr) = (place.num_cols(), place.num_rows());
    let shape_ok = nc.checked_mul(nr) == Some(place.data().len()) && ((nc == 0) == (nr == 0));
    match r {
        Err(()) => DeOut::Panic,
        Ok(Err(e)) => {
            if shape_ok { DeOut::Err(e.to_string()) } else { DeOut::PlaceBroken(nc, nr, place.data().len()) }
        }
        Ok(Ok(())) => DeOut::Ok(nc, nr, place.data().to_vec(), shape_ok),
    }
}

fn run_doc(case: &Value) -> Vec<Fail> {
    let doc = &case["doc"];
    let x = &case["x"];
    let mut fails = Vec::new();
    let exp_ok = x["res"]["k"] == "ok";
    let may_reject = x["may_reject"].as_bool().unwrap_or(false);
    // not a map: the reading is not fixed by the specification, only "no panic, and consistent if accepted"
    let may_accept_consistent = x["may_accept_consistent"].as_bool().unwrap_or(false);
    let mut transports: Vec<(String, DeOut)> = Vec::new();
    let has_unknown = doc["fields"].as_array().map(|l| l.iter().any(|f| f["key"] == "extra")).unwrap_or(false);
    let variants: Vec<(bool, usize)> = if has_unknown { (0..6).map(|v| (v % 2 == 1, v)).collect() } else { vec![(false, 0), (true, 0)] };
    for (escaped, variant) in variants {
        let text = render_v(doc, escaped, variant);
        let tag = if escaped { "+escaped_keys" } else { "" };
        transports.push((format!("from_str{tag}"), observe(guarded(|| serde_json::from_str::<TooDee<u32>>(&text)))));
        transports.push((format!("from_slice{tag}"), observe(guarded(|| serde_json::from_slice::<TooDee<u32>>(text.as_bytes())))));
        transports.push((format!("from_reader{tag}"), observe(guarded(|| serde_json::from_reader::<_, TooDee<u32>>(text.as_bytes())))));
        if !escaped {
            // Deserialize::deserialize_in_place (what containers such as Vec<TooDee<T>> call when reloading): the outcome must
            // not depend on what the destination held before
            for (pn, prior) in in_place_priors() {
                transports.push((format!("in_place[{pn}]"), observe_in_place(&text, prior)));
            }
        }
        if !escaped && doc["top"] == "object" {
            // the same document for an array of zero-sized cells (`()`): element-size-dependent checks in the visitor
            let unit_text = text.clone();
            let fields: Vec<String> = doc["fields"].as_array().unwrap().iter().map(|f| {
                let k = f["key"].as_str().unwrap();
                let v = match k {
                    "num_cols" | "num_rows" => dim_text(f["val"].as_u64().unwrap()),
                    "data" => data_text_unit(&f["val"]),
                    _ => "7".to_string(),
                };
                if k == "extra" { format!("{}:{}", serde_json::to_string(&unknown_key(variant)).unwrap(), v) } else { format!("\"{k}\":{v}") }
            }).collect();
            let _ = unit_text;
            let utext = format!("{{{}}}", fields.join(","));
            let r = guarded(|| serde_json::from_str::<TooDee<()>>(&utext));
            transports.push(("from_str::<()>".into(), match r {
                Err(()) => DeOut::Panic,
                Ok(Err(e)) => DeOut::Err(e.to_string()),
                Ok(Ok(t)) => {
                    let (nc, nr) = (t.num_cols(), t.num_rows());
                    let shape_ok = nc.checked_mul(nr) == Some(t.data().len()) && ((nc == 0) == (nr == 0));
                    DeOut::Ok(nc, nr, (1..=t.data().len() as u32).collect(), shape_ok)
                }
            }));
        }
        if !escaped && doc["top"] == "object" {
            // the array as a flattened part of a larger record: the outer visitor hands our visitor a buffered map and
            // does not itself insist that every entry was consumed
            #[derive(serde::Deserialize)]
            struct Layer {
                #[allow(dead_code)]
                id: u32,
                #[serde(flatten)]
                grid: TooDee<u32>,
            }
            let wrapped = format!("{{\"id\":1,{}", &text[1..]);
            let wrapped = if text == "{}" { "{\"id\":1}".to_string() } else { wrapped };
            transports.push(("flatten".into(), observe(guarded(|| serde_json::from_str::<Layer>(&wrapped).map(|l| l.grid)))));
        }
        if !escaped {
            // the same document in a length-prefixed format, with honest and dishonest announced lengths
            let n_data = doc["fields"].as_array().and_then(|l| l.iter().find(|f| f["key"] == "data")).and_then(|f| f["val"]["n"].as_u64()).unwrap_or(0) as usize;
            for (hn, hint) in [("honest", Some(n_data)), ("none", None), ("2^62", Some(1usize << 62)), ("max", Some(usize::MAX)), ("zero", Some(0))] {
                if let Some(d) = prefixed_doc(doc, hint) {
                    use serde::Deserialize;
                    let r = guarded(move || TooDee::<u32>::deserialize(d));
                    let out = match r {
                        Err(()) => DeOut::Panic,
                        Ok(Err(e)) => DeOut::Err(e.to_string()),
                        Ok(Ok(t)) => {
                            let (nc, nr) = (t.num_cols(), t.num_rows());
                            let shape_ok = nc.checked_mul(nr) == Some(t.data().len()) && ((nc == 0) == (nr == 0));
                            DeOut::Ok(nc, nr, t.data().to_vec(), shape_ok)
                        }
                    };
                    transports.push((format!("prefixed[hint={hn}]"), out));
                }
            }
        }
        if !escaped && !has_duplicate_keys(doc) {
            // a value tree cannot hold duplicate keys
            if let Ok(v) = serde_json::from_str::<Value>(&text) {
                transports.push(("from_value".into(), observe(guarded(|| serde_json::from_value::<TooDee<u32>>(v)))));
            }
        }
    }
    for (name, out) in transports {
        match out {
            DeOut::Panic => fails.push(Fail::new(0, "de.panic", json!({"transport": name, "doc": render(doc, false)}))),
            DeOut::PlaceBroken(nc, nr, len) => fails.push(Fail::new(0, "de.place_broken", json!({"transport": name, "doc": render(doc, false), "dims": [nc, nr], "len": len}))),
            DeOut::Err(e) => {
                if exp_ok && !may_reject {
                    fails.push(Fail::new(0, "de.rejected", json!({"transport": name, "doc": render(doc, false), "error": e})));
                }
            }
            DeOut::Ok(nc, nr, data, shape_ok) => {
                if !exp_ok && may_accept_consistent {
                    if !shape_ok {
                        fails.push(Fail::new(0, "de.inconsistent", json!({"transport": name, "doc": render(doc, false), "got": [nc, nr], "len": data.len()})));
                    }
                } else if !exp_ok {
                    fails.push(Fail::new(0, "de.accepted", json!({"transport": name, "doc": render(doc, false), "got": [nc, nr], "data": data})));
                } else {
                    let enc = x["res"]["nc"].as_u64().unwrap() as usize;
                    let enr = x["res"]["nr"].as_u64().unwrap() as usize;
                    let en = x["res"]["n"].as_u64().unwrap() as u32;
                    let edata: Vec<u32> = (1..=en).collect();
                    if !shape_ok || nc != enc || nr != enr || data != edata {
                        fails.push(Fail::new(0, "de.wrong", json!({"transport": name, "doc": render(doc, false), "got": [nc, nr], "data": data})));
                    }
                }
            }
        }
    }
    fails
}

/// element types for the round trip: value of cell `id`
trait RtElem: Serialize + DeserializeOwned + PartialEq + Clone + std::fmt::Debug {
    const NAME: &'static str;
    /// serde_json's value tree cannot hold every value of the type (128-bit integers): only the text transports apply
    const VALUE_TREE: bool = true;
    fn of(id: u32) -> Self;
}
impl RtElem for u32 {
    const NAME: &'static str = "u32";
    fn of(id: u32) -> u32 {
        id.wrapping_mul(0x9E37_79B9)
    }
}
impl RtElem for () {
    const NAME: &'static str = "()";
    fn of(_: u32) {}
}
impl RtElem for i128 {
    const NAME: &'static str = "i128";
    const VALUE_TREE: bool = false;
    fn of(id: u32) -> i128 {
        if id % 2 == 0 { i128::MIN + id as i128 } else { (u64::MAX as i128) * 3 + id as i128 }      // beyond the 64-bit range
    }
}
impl RtElem for u128 {
    const NAME: &'static str = "u128";
    const VALUE_TREE: bool = false;
    fn of(id: u32) -> u128 {
        u128::MAX - id as u128
    }
}
impl RtElem for std::collections::BTreeMap<u32, String> {
    const NAME: &'static str = "BTreeMap<u32,String>";
    fn of(id: u32) -> Self {
        (0..id % 3).map(|k| (id + k, format!("v{k}"))).collect()       // maps with integer keys as cells
    }
}
impl RtElem for i64 {
    const NAME: &'static str = "i64";
    fn of(id: u32) -> i64 {
        if id % 2 == 0 { -(id as i64) * 1_000_000_007 } else { i64::MAX - id as i64 }
    }
}
impl RtElem for String {
    const NAME: &'static str = "String";
    fn of(id: u32) -> String {
        format!("c{id}\"q\\b/\n\t\u{0001}\u{00e9}\u{1F600}num_cols")
    }
}
impl RtElem for Option<u8> {
    const NAME: &'static str = "Option<u8>";
    fn of(id: u32) -> Option<u8> {
        if id % 2 == 0 { None } else { Some(id as u8) }
    }
}
impl RtElem for Vec<u8> {
    const NAME: &'static str = "Vec<u8>";
    fn of(id: u32) -> Vec<u8> {
        vec![id as u8; (id % 3) as usize]
    }
}

fn roundtrip_all<E: RtElem>(t: &TooDee<E>, fails: &mut Vec<Fail>) {
    let check = |name: &str, r: Result<Result<TooDee<E>, serde_json::Error>, ()>, fails: &mut Vec<Fail>| match r {
        Err(()) => fails.push(Fail::new(0, "rt.panic", json!({"elem": E::NAME, "path": name, "dims": [t.num_cols(), t.num_rows()]}))),
        Ok(Err(e)) => fails.push(Fail::new(0, "rt.error", json!({"elem": E::NAME, "path": name, "dims": [t.num_cols(), t.num_rows()], "error": e.to_string()}))),
        Ok(Ok(back)) => {
            if back != *t || back.size() != t.size() || back.data() != t.data() {
                fails.push(Fail::new(0, "rt.differs", json!({"elem": E::NAME, "path": name, "dims": [t.num_cols(), t.num_rows()],
                    "got_dims": [back.num_cols(), back.num_rows()]})));
            }
        }
    };
    let s = match guarded(|| serde_json::to_string(t)) {
        Ok(Ok(s)) => s,
        _ => {
            fails.push(Fail::new(0, "rt.ser_failed", json!({"elem": E::NAME})));
            return;
        }
    };
    let bytes = serde_json::to_vec(t).unwrap();
    let mut w: Vec<u8> = Vec::new();
    serde_json::to_writer(&mut w, t).unwrap();
    if !E::VALUE_TREE {
        for (sname, text) in [("to_string", s.as_bytes().to_vec()), ("to_vec", bytes), ("to_writer", w)] {
            let txt = String::from_utf8(text.clone()).unwrap();
            check(&format!("{sname}->from_str"), guarded(|| serde_json::from_str::<TooDee<E>>(&txt)), fails);
            check(&format!("{sname}->from_slice"), guarded(|| serde_json::from_slice::<TooDee<E>>(&text)), fails);
            check(&format!("{sname}->from_reader"), guarded(|| serde_json::from_reader::<_, TooDee<E>>(&text[..])), fails);
        }
        return;
    }
    let val = serde_json::to_value(t).unwrap();
    // the document has exactly the three stated fields
    let keys: Vec<String> = val.as_object().map(|m| m.keys().cloned().collect()).unwrap_or_default();
    let mut sorted = keys.clone();
    sorted.sort();
    if sorted != ["data", "num_cols", "num_rows"] || val["num_cols"] != json!(t.num_cols()) || val["num_rows"] != json!(t.num_rows())
        || val["data"].as_array().map(|a| a.len()) != Some(t.data().len())
    {
        fails.push(Fail::new(0, "rt.document", json!({"elem": E::NAME, "keys": keys})));
    }
    for (sname, text) in [("to_string", s.as_bytes().to_vec()), ("to_vec", bytes), ("to_writer", w)] {
        let txt = String::from_utf8(text.clone()).unwrap();
        check(&format!("{sname}->from_str"), guarded(|| serde_json::from_str::<TooDee<E>>(&txt)), fails);
        check(&format!("{sname}->from_slice"), guarded(|| serde_json::from_slice::<TooDee<E>>(&text)), fails);
        check(&format!("{sname}->from_reader"), guarded(|| serde_json::from_reader::<_, TooDee<E>>(&text[..])), fails);
    }
    check("to_value->from_value", guarded(|| serde_json::from_value::<TooDee<E>>(val.clone())), fails);
    // reloading in place, into destinations that are empty, smaller and larger than the document
    for (pn, pc, pr) in [("empty", 0usize, 0usize), ("1x1", 1, 1), ("larger", t.num_cols() + 1, t.num_rows() + 2)] {
        let prior: TooDee<E> = if pc == 0 { TooDee::default() } else { TooDee::init(pc, pr, E::of(7)) };
        let r = guarded(|| {
            use serde::Deserialize;
            let mut place = prior;
            let mut de = serde_json::Deserializer::from_str(&s);
            <TooDee<E> as Deserialize>::deserialize_in_place(&mut de, &mut place).and_then(|()| de.end()).map(|()| place)
        });
        check(&format!("to_string->in_place[{pn}]"), r, fails);
    }
    let v2: Value = serde_json::from_str(&s).unwrap();
    check("to_string->Value->from_value", guarded(|| serde_json::from_value::<TooDee<E>>(v2)), fails);
}

/// C11 x serde: a destructor of an OLD element panics while `deserialize_in_place` replaces the contents of an array of
/// resource-owning elements.  Whatever the call does, the destination must be left a valid array and nothing may be
/// dropped twice, then or when it is dropped.
fn in_place_drop_faults(nc: usize, nr: usize, fails: &mut Vec<Fail>) {
    use crate::cells::Elem;
    use crate::{fault, ledger};
    use serde::Deserialize;
    let n = nc * nr;
    let text = serde_json::to_string(&TooDee::<u32>::from_vec(nc, nr, (1..=n as u32).collect())).unwrap();
    for (pc, pr) in [(nc + 1, nr + 1), (2usize, 2usize), (1, 3)] {
        for k in 0..=(pc * pr) as u32 {
            ledger::reset();
            let mut place: TooDee<Elem> = TooDee::from_vec(pc, pr, (0..(pc * pr) as u32).map(|i| Elem::new(500 + i)).collect());
            fault::arm(fault::Site::Drop, k);
            let r = guarded(|| {
                let mut de = serde_json::Deserializer::from_str(&text);
                <TooDee<Elem> as Deserialize>::deserialize_in_place(&mut de, &mut place)
            });
            let fired = fault::fired();
            fault::disarm();
            let (c, rr, len) = (place.num_cols(), place.num_rows(), place.data().len());
            let shape_ok = c.checked_mul(rr) == Some(len) && ((c == 0) == (rr == 0));
            let dead = place.data().iter().filter(|e| ledger::is_live(e.serial) != Some(true)).count();
            let detail = json!({"doc_dims": [nc, nr], "prior": [pc, pr], "k": k, "fired": fired, "after": [c, rr, len], "dead_cells": dead,
                                "panicked": r.is_err()});
            if !shape_ok || dead > 0 {
                fails.push(Fail::new(0, "fault.in_place", detail.clone()));
            }
            if !fired {
                let good = matches!(r, Ok(Ok(()))) && (c, rr) == (nc, nr) && place.data().iter().map(|e| e.origin).eq(1..=n as u32);
                if !good {
                    fails.push(Fail::new(0, "rt.in_place_elem", detail.clone()));
                }
            }
            if shape_ok {
                let _ = guarded(move || drop(place));
            } else {
                std::mem::forget(place);
            }
            if !ledger::double_drops().is_empty() {
                fails.push(Fail::new(0, "fault.in_place_double_drop", detail));
            }
            if !fails.is_empty() {
                return;
            }
        }
    }
}

fn run_roundtrip(case: &Value) -> Vec<Fail> {
    let doc = &case["doc"];
    let mut fails = Vec::new();
    let get = |k: &str| -> usize {
        doc["fields"].as_array().unwrap().iter().find(|f| f["key"] == k).unwrap()["val"].as_u64().unwrap() as usize
    };
    let (nc, nr) = (get("num_cols"), get("num_rows"));
    let n = (nc * nr) as u32;
    if case["stratum"] == "roundtrip_owned" {
        if n <= 9 {
            in_place_drop_faults(nc, nr, &mut fails);
        }
        roundtrip_all(&TooDee::from_vec(nc, nr, (1..=n).map(u32::of).collect()), &mut fails);
        if n > 20_000 {
            return fails; // very large arrays: the Copy element type only (the others would need hundreds of megabytes)
        }
        roundtrip_all(&TooDee::from_vec(nc, nr, (1..=n).map(<()>::of).collect()), &mut fails);      // a zero-sized element type
        roundtrip_all(&TooDee::from_vec(nc, nr, (1..=n).map(i64::of).collect()), &mut fails);
        roundtrip_all(&TooDee::from_vec(nc, nr, (1..=n).map(i128::of).collect()), &mut fails);
        roundtrip_all(&TooDee::from_vec(nc, nr, (1..=n).map(u128::of).collect()), &mut fails);
        roundtrip_all(&TooDee::from_vec(nc, nr, (1..=n).map(<std::collections::BTreeMap<u32, String>>::of).collect()), &mut fails);
        roundtrip_all(&TooDee::from_vec(nc, nr, (1..=n).map(String::of).collect()), &mut fails);
        roundtrip_all(&TooDee::from_vec(nc, nr, (1..=n).map(<Option<u8>>::of).collect()), &mut fails);
        roundtrip_all(&TooDee::from_vec(nc, nr, (1..=n).map(<Vec<u8>>::of).collect()), &mut fails);
    } else {
        // a window of size (nc, nr) at every offset inside a parent two larger in each direction
        let big = n > 20_000;
        let (pc, pr) = (nc + 2, nr + 2);
        let mut parent: TooDee<u32> = TooDee::from_vec(pc, pr, (1..=(pc * pr) as u32).map(u32::of).collect());
        for oc in 0..=2usize {
            for or in 0..=2usize {
                if big && (oc, or) != (1, 1) {
                    continue;
                }
                let expect: TooDee<u32> = TooDee::from(parent.view((oc, or), (oc + nc, or + nr)));
                let mut outs: Vec<(String, Result<Result<TooDee<u32>, serde_json::Error>, ()>)> = Vec::new();
                let ser_ok = guarded(|| {
                    let v = parent.view((oc, or), (oc + nc, or + nr));
                    let _ = serde_json::to_string(&v).unwrap();
                    let _ = serde_json::to_value(&v).unwrap();
                    let pm: *const TooDee<u32> = &parent;
                    let _ = pm;
                });
                if ser_ok.is_err() {
                    fails.push(Fail::new(0, "rt.ser_panic", json!({"path": "view", "dims": [nc, nr], "offset": [oc, or]})));
                    continue;
                }
                {
                    let v = parent.view((oc, or), (oc + nc, or + nr));
                    let s = serde_json::to_string(&v).unwrap();
                    let val = serde_json::to_value(&v).unwrap();
                    outs.push(("view:to_string->from_str".into(), guarded(|| serde_json::from_str(&s))));
                    if !big {
                        outs.push(("view:to_string->in_place[larger]".into(), guarded(|| {
                            use serde::Deserialize;
                            let mut place: TooDee<u32> = TooDee::init(nc + 2, nr + 1, 777u32);
                            let mut de = serde_json::Deserializer::from_str(&s);
                            <TooDee<u32> as Deserialize>::deserialize_in_place(&mut de, &mut place).and_then(|()| de.end()).map(|()| place)
                        })));
                    }
                    outs.push(("view:to_string->from_reader".into(), guarded(|| serde_json::from_reader(s.as_bytes()))));
                    outs.push(("view:to_value->from_value".into(), guarded(|| serde_json::from_value(val))));
                }
                let ser_ok = guarded(|| {
                    let vm = parent.view_mut((oc, or), (oc + nc, or + nr));
                    let _ = serde_json::to_vec(&vm).unwrap();
                    let _ = serde_json::to_value(&vm).unwrap();
                });
                if ser_ok.is_err() {
                    fails.push(Fail::new(0, "rt.ser_panic", json!({"path": "view_mut", "dims": [nc, nr], "offset": [oc, or]})));
                    continue;
                }
                {
                    let vm = parent.view_mut((oc, or), (oc + nc, or + nr));
                    let s = serde_json::to_vec(&vm).unwrap();
                    let val = serde_json::to_value(&vm).unwrap();
                    outs.push(("view_mut:to_vec->from_slice".into(), guarded(|| serde_json::from_slice(&s))));
                    outs.push(("view_mut:to_vec->from_reader".into(), guarded(|| serde_json::from_reader(&s[..]))));
                    outs.push(("view_mut:to_value->from_value".into(), guarded(|| serde_json::from_value(val))));
                }
                for (name, r) in outs {
                    match r {
                        Err(()) => fails.push(Fail::new(0, "rt.panic", json!({"path": name, "dims": [nc, nr], "offset": [oc, or]}))),
                        Ok(Err(e)) => fails.push(Fail::new(0, "rt.error", json!({"path": name, "dims": [nc, nr], "offset": [oc, or], "error": e.to_string()}))),
                        Ok(Ok(back)) => {
                            if back != expect || back.size() != expect.size() {
                                fails.push(Fail::new(0, "rt.differs", json!({"path": name, "dims": [nc, nr], "offset": [oc, or]})));
                            }
                        }
                    }
                }
            }
        }
    }
    fails
}

pub fn run_case(case: &Value) -> Vec<Fail> {
    let stratum = case["stratum"].as_str().unwrap_or("");
    let mut fails = if stratum.starts_with("roundtrip") { run_roundtrip(case) } else { Vec::new() };
    // every document - including the serialised forms - also goes through the acceptance check
    fails.extend(run_doc(case));
    fails
}
