//! Shared helpers: argument decoding (including the symbolic "Big" arguments of the
//! specification), failure records, supplied-item iterators with fault injection.
use crate::cells::CellT;
use crate::fault::{self, Site};
use serde_json::{json, Value};

pub const BIG: u64 = 1_000_000;
pub const BIG_MAX: u64 = BIG + 1;
pub const BIG_HALF: u64 = BIG + 2;
pub const BIG_HALF1: u64 = BIG + 3;
pub const BIG_P32: u64 = BIG + 4;
pub const BIG_WRAP: u64 = BIG + 5;

#[derive(Clone, Debug)]
pub struct Fail {
    pub step: usize,
    pub kind: String,
    pub detail: Value,
}

impl Fail {
    pub fn new(step: usize, kind: &str, detail: Value) -> Fail {
        Fail { step, kind: kind.to_string(), detail }
    }
    pub fn to_json(&self) -> Value {
        json!({"step": self.step, "kind": self.kind, "detail": self.detail})
    }
}

pub fn get_u64(a: &Value, k: &str) -> u64 {
    a.get(k).and_then(|v| v.as_u64()).unwrap_or_else(|| panic!("harness: missing integer argument {k} in {a}"))
}

pub fn get_list(a: &Value, k: &str) -> Vec<u32> {
    a.get(k)
        .and_then(|v| v.as_array())
        .unwrap_or_else(|| panic!("harness: missing list argument {k} in {a}"))
        .iter()
        .map(|x| x.as_u64().expect("harness: list of integers") as u32)
        .collect()
}

pub fn get_pair(a: &Value, k: &str) -> (u64, u64) {
    let l = a.get(k).and_then(|v| v.as_array()).unwrap_or_else(|| panic!("harness: missing pair {k} in {a}"));
    (l[0].as_u64().unwrap(), l[1].as_u64().unwrap())
}

pub fn is_big(v: u64) -> bool {
    v > BIG
}

fn inv_odd(m: u64) -> u64 {
    // inverse of an odd number modulo 2^64 (Newton iteration)
    let mut x = m;
    for _ in 0..6 {
        x = x.wrapping_mul(2u64.wrapping_sub(m.wrapping_mul(x)));
    }
    x
}

/// Indices `i >= dim` such that `i * stride` (wrapping, 64 bit) lands on a position `<= span`:
/// the inputs for which unchecked stride arithmetic silently re-enters the buffer.
pub fn wrap_values(stride: usize, dim: usize, span: usize) -> Vec<usize> {
    let mut out = Vec::new();
    let s = stride as u64;
    if s >= 2 {
        let k = s.trailing_zeros();
        let m = s >> k;
        let inv = inv_odd(m);
        for p in 0..=(span as u64) {
            if k > 0 && p & ((1u64 << k) - 1) != 0 {
                continue;
            }
            let q = p >> k;
            let base = q.wrapping_mul(inv);
            if k == 0 {
                if base as usize >= dim {
                    out.push(base as usize);
                }
            } else {
                let modulus_bits = 64 - k;
                let low = if modulus_bits == 64 { base } else { base & ((1u64 << modulus_bits) - 1) };
                // all solutions: low + t * 2^(64-k)
                for t in 0..(1u64 << k.min(2)) {
                    let cand = low.wrapping_add(t << modulus_bits);
                    if cand as usize >= dim && cand.wrapping_mul(s) == p {
                        out.push(cand as usize);
                    }
                }
            }
            if out.len() >= 6 {
                break;
            }
        }
        out.push((u64::MAX / s + 1) as usize);
    }
    out.push(usize::MAX - 1);
    // a Big argument is by definition far beyond every dimension
    out.retain(|&v| v >= (1usize << 20) && v >= dim);
    out.sort_unstable();
    out.dedup();
    out
}

/// Concrete 64-bit instances of a symbolic Big argument.
pub fn expand_big(code: u64, strides: &[usize], dim: usize, span: usize) -> Vec<usize> {
    match code {
        BIG_MAX => vec![usize::MAX],
        BIG_HALF => vec![usize::MAX / 2],
        BIG_HALF1 => vec![usize::MAX / 2 + 1],
        BIG_P32 => vec![1usize << 32],
        BIG_WRAP => {
            let mut v = Vec::new();
            for &s in strides {
                v.extend(wrap_values(s, dim, span));
            }
            if v.is_empty() {
                v.push(usize::MAX - 1);
            }
            v.sort_unstable();
            v.dedup();
            v
        }
        _ => panic!("harness: unknown Big code {code}"),
    }
}

/// Expand one argument: a small value stands for itself.
pub fn expand_arg(v: u64, strides: &[usize], dim: usize, span: usize) -> Vec<usize> {
    if is_big(v) {
        expand_big(v, strides, dim, span)
    } else {
        vec![v as usize]
    }
}

#[derive(Clone, Copy, PartialEq, Eq, Debug)]
pub enum LenMode {
    True,
    Minus1,
    Plus1,
    Max,
    /// honest on the first call of len(), one less on every later call: the answer changes although nothing was consumed
    FlipDown,
    /// honest on the first call, one more afterwards
    FlipUp,
}

/// The element iterator handed to insert_row / insert_col: exact-size, double-ended, with
/// fault-injection points on every entry and an optional lie about its length.
pub struct Feed<T> {
    inner: std::vec::IntoIter<T>,
    mode: LenMode,
    len_calls: std::cell::Cell<u32>,
}

impl<T> Feed<T> {
    pub fn new(items: Vec<T>, mode: LenMode) -> Feed<T> {
        Feed { inner: items.into_iter(), mode, len_calls: std::cell::Cell::new(0) }
    }
    fn reported(&self) -> usize {
        let n = self.inner.len();
        match self.mode {
            LenMode::True => n,
            LenMode::Minus1 => n.saturating_sub(1),
            LenMode::Plus1 => n + 1,
            LenMode::Max => usize::MAX,
            LenMode::FlipDown => if self.len_calls.get() <= 1 { n } else { n.saturating_sub(1) },
            LenMode::FlipUp => if self.len_calls.get() <= 1 { n } else { n + 1 },
        }
    }
}

/// the iterator's own destructor is caller code too (fault site "iter_drop"); it runs wherever the library lets go of it
impl<T> Drop for Feed<T> {
    fn drop(&mut self) {
        if !std::thread::panicking() {
            fault::tick(Site::IterDrop);
        }
    }
}

impl<T> Iterator for Feed<T> {
    type Item = T;
    fn next(&mut self) -> Option<T> {
        fault::tick(Site::IterNext);
        self.inner.next()
    }
    fn size_hint(&self) -> (usize, Option<usize>) {
        let n = self.reported();
        (n, Some(n))
    }
}
impl<T> DoubleEndedIterator for Feed<T> {
    fn next_back(&mut self) -> Option<T> {
        fault::tick(Site::IterNextBack);
        self.inner.next_back()
    }
}
impl<T> ExactSizeIterator for Feed<T> {
    fn len(&self) -> usize {
        fault::tick(Site::IterLen);
        self.len_calls.set(self.len_calls.get() + 1);
        self.reported()
    }
}

pub fn make_items<T: CellT>(origins: &[u32]) -> Vec<T> {
    origins.iter().map(|&o| T::make(o)).collect()
}

pub fn origins_of<T: CellT>(s: &[T]) -> Vec<u32> {
    s.iter().map(|e| e.origin()).collect()
}

pub fn silence_panics() {
    std::panic::set_hook(Box::new(|_| {}));
}

/// Run `f`, converting a panic into `Err(())`.
pub fn guarded<R>(f: impl FnOnce() -> R) -> Result<R, ()> {
    std::panic::catch_unwind(std::panic::AssertUnwindSafe(f)).map_err(|_| ())
}
