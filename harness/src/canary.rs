//! Red-zone allocator: every heap block gets a guard zone before and after it, new memory is
//! poisoned, and the guards are verified when the block is released and on demand.  A raw copy
//! that overruns the `Vec` buffer (the class of defect recorded in toodee's 0.6.0 changelog) is
//! turned into an observable event (`redzone_ok = false`) instead of silent heap corruption.
use std::alloc::{GlobalAlloc, Layout, System};
use std::sync::atomic::{AtomicBool, AtomicIsize, AtomicUsize, Ordering};

pub struct Canary;

const RZ: usize = 64;
const FRONT: u8 = 0xFB;
const BACK: u8 = 0xFD;
pub const POISON: u8 = 0xA5;
const FREED: u8 = 0xDD;

static BAD: AtomicBool = AtomicBool::new(false);
// memory exhaustion as an environment fault: the k-th allocation request from now on is refused (once)
static FAIL_IN: AtomicIsize = AtomicIsize::new(-1);
static FAIL_FIRED: AtomicBool = AtomicBool::new(false);

#[inline]
fn refuse_now() -> bool {
    let v = FAIL_IN.load(Ordering::Relaxed);
    if v < 0 {
        false
    } else if v == 0 {
        FAIL_IN.store(-1, Ordering::Relaxed);
        FAIL_FIRED.store(true, Ordering::Relaxed);
        true
    } else {
        FAIL_IN.store(v - 1, Ordering::Relaxed);
        false
    }
}

/// The `k`-th (0-based) allocation or reallocation request from now on returns null, once.
pub fn arm_fail(k: u32) {
    FAIL_FIRED.store(false, Ordering::Relaxed);
    FAIL_IN.store(k as isize, Ordering::Relaxed);
}

/// Disarm; returns whether a request was refused since `arm_fail`.
pub fn disarm_fail() -> bool {
    FAIL_IN.store(-1, Ordering::Relaxed);
    FAIL_FIRED.load(Ordering::Relaxed)
}
static BAD_COUNT: AtomicUsize = AtomicUsize::new(0);

#[inline]
fn front_pad(align: usize) -> usize {
    // multiple of align, at least RZ
    let a = align.max(1);
    (RZ + a - 1) / a * a
}

unsafe fn zones_ok(user: *mut u8, size: usize, align: usize) -> bool {
    let fp = front_pad(align);
    let base = user.sub(fp);
    for i in 0..fp {
        if *base.add(i) != FRONT {
            return false;
        }
    }
    let back = user.add(size);
    for i in 0..RZ {
        if *back.add(i) != BACK {
            return false;
        }
    }
    true
}

/// Blocks of a gibibyte and more (the giant byte-cell arrays: address arithmetic only, the memory is never touched) go
/// straight to the system allocator: no guard zones, no poisoning, so the pages stay unmapped.
const PASS_THROUGH: usize = 1 << 30;

unsafe impl GlobalAlloc for Canary {
    unsafe fn alloc(&self, layout: Layout) -> *mut u8 {
        if refuse_now() {
            return std::ptr::null_mut();
        }
        if layout.size() >= PASS_THROUGH {
            return System.alloc_zeroed(layout);
        }
        let fp = front_pad(layout.align());
        let total = fp + layout.size() + RZ;
        let l = match Layout::from_size_align(total, layout.align()) {
            Ok(l) => l,
            Err(_) => return std::ptr::null_mut(),
        };
        let base = System.alloc(l);
        if base.is_null() {
            return base;
        }
        std::ptr::write_bytes(base, FRONT, fp);
        let user = base.add(fp);
        std::ptr::write_bytes(user, POISON, layout.size());
        std::ptr::write_bytes(user.add(layout.size()), BACK, RZ);
        user
    }

    unsafe fn dealloc(&self, ptr: *mut u8, layout: Layout) {
        if layout.size() >= PASS_THROUGH {
            return System.dealloc(ptr, layout);
        }
        if !zones_ok(ptr, layout.size(), layout.align()) {
            BAD.store(true, Ordering::SeqCst);
            BAD_COUNT.fetch_add(1, Ordering::SeqCst);
        }
        std::ptr::write_bytes(ptr, FREED, layout.size());
        let fp = front_pad(layout.align());
        let total = fp + layout.size() + RZ;
        let l = Layout::from_size_align_unchecked(total, layout.align());
        System.dealloc(ptr.sub(fp), l);
    }

    unsafe fn alloc_zeroed(&self, layout: Layout) -> *mut u8 {
        let p = self.alloc(layout);
        if layout.size() >= PASS_THROUGH {
            return p;       // already zeroed, and must stay untouched
        }
        if !p.is_null() {
            std::ptr::write_bytes(p, 0, layout.size());
        }
        p
    }

    unsafe fn realloc(&self, ptr: *mut u8, layout: Layout, new_size: usize) -> *mut u8 {
        let nl = match Layout::from_size_align(new_size, layout.align()) {
            Ok(l) => l,
            Err(_) => return std::ptr::null_mut(),
        };
        let np = self.alloc(nl);
        if !np.is_null() {
            std::ptr::copy_nonoverlapping(ptr, np, layout.size().min(new_size));
            self.dealloc(ptr, layout);
        }
        np
    }
}

/// Has any released block been found with a damaged guard zone since the last `reset`?
pub fn damaged() -> bool {
    BAD.load(Ordering::SeqCst)
}

pub fn reset() {
    BAD.store(false, Ordering::SeqCst);
}

/// Check the guard zones of one live block (e.g. the array's own buffer) right now.
/// `ptr`/`bytes`/`align` must describe a live allocation made through this allocator.
pub fn block_ok(ptr: *const u8, bytes: usize, align: usize) -> bool {
    if bytes == 0 {
        return true;
    }
    unsafe { zones_ok(ptr as *mut u8, bytes, align) }
}

/// Guard check for a `Vec`-like buffer of `cap` elements of `T` starting at `ptr`.
pub fn vec_buffer_ok<T>(ptr: *const T, cap: usize) -> bool {
    let sz = std::mem::size_of::<T>();
    if sz == 0 || cap == 0 {
        return true;
    }
    block_ok(ptr as *const u8, sz * cap, std::mem::align_of::<T>())
}
