//! Interpreter for the iterator family (`SeqIter.tla`): a sequence of calls on ONE live iterator
//! (rows / rows_mut / col / col_mut / cells / cells_mut / the IntoIterator forms) over any
//! receiver.  Every result is compared with the ideal sequence; afterwards the remaining items are
//! drained and compared, and for the `Mut` variants every reference that was yielded is written
//! through and the whole root compared.
use crate::acc::{descend_owned, descend_toodee, descend_v, descend_vm, parse_stack, u32s, window_of, Leaf, Plain};
use crate::canary;
use crate::cells::CellT;
use crate::fault;
use crate::ledger;
use crate::util::*;
use serde_json::{json, Value};
use toodee::{TooDee, TooDeeIterator, TooDeeOps, TooDeeOpsMut, TooDeeView, TooDeeViewMut};

const WBASE: u32 = 2000;

pub trait Item<T: CellT> {
    const IS_ROW: bool;
    fn ids(&self) -> Vec<u32>;
    fn write(self, base: u32);
}
impl<'a, T: CellT> Item<T> for &'a [T] {
    const IS_ROW: bool = true;
    fn ids(&self) -> Vec<u32> {
        origins_of(self)
    }
    fn write(self, _: u32) {}
}
impl<'a, T: CellT> Item<T> for &'a mut [T] {
    const IS_ROW: bool = true;
    fn ids(&self) -> Vec<u32> {
        origins_of(self)
    }
    fn write(self, base: u32) {
        for (x, c) in self.iter_mut().enumerate() {
            *c = T::make(base + x as u32);
        }
    }
}
impl<'a, T: CellT> Item<T> for &'a T {
    const IS_ROW: bool = false;
    fn ids(&self) -> Vec<u32> {
        vec![self.origin()]
    }
    fn write(self, _: u32) {}
}
impl<'a, T: CellT> Item<T> for &'a mut T {
    const IS_ROW: bool = false;
    fn ids(&self) -> Vec<u32> {
        vec![self.origin()]
    }
    fn write(self, base: u32) {
        *self = T::make(base);
    }
}

fn item_res<T: CellT, It: Item<T>>(it: &Option<It>) -> Value {
    match it {
        None => json!({"k": "none"}),
        Some(i) => {
            if It::IS_ROW {
                json!({"k": "ids", "v": i.ids()})
            } else {
                json!({"k": "some", "v": i.ids()[0]})
            }
        }
    }
}

struct Run<'c> {
    calls: &'c [Value],
    variant: usize,
    strides: Vec<usize>,
    span: usize,
    fails: Vec<Fail>,
    /// driver mode (cases without expectations): observed results / remaining items, logged for IterTrace.tla
    driver: bool,
    obs: Vec<Value>,
    obs_remaining: Option<(usize, usize, Vec<u32>)>,
}

/// Drive one iterator through the call sequence.
fn drive<T: CellT, I>(
    run: &mut Run<'_>,
    it: I,
    index: Option<&dyn Fn(&I, usize) -> u32>,
    num_cols: Option<&dyn Fn(&I) -> usize>,
    case: &Value,
) where
    I: DoubleEndedIterator + ExactSizeIterator,
    I::Item: Item<T>,
{
    let mut it = Some(it);
    let mut kept: Vec<I::Item> = Vec::new();
    for (ci, call) in run.calls.iter().enumerate() {
        let op = call["op"].as_str().unwrap();
        let a = &call["a"];
        let exp = &call["x"]["res"];
        let n: usize = match a.get("n").and_then(|v| v.as_u64()) {
            Some(v) if is_big(v) => {
                let remaining = it.as_ref().map(|i| i.len()).unwrap_or(0);
                let vals = expand_big(v, &run.strides, remaining + 1, run.span);
                vals[run.variant % vals.len()]
            }
            Some(v) => v as usize,
            None => 0,
        };
        let got: Value = match guarded(|| -> Value {
            match op {
                "next" => {
                    let r = it.as_mut().unwrap().next();
                    let v = item_res::<T, _>(&r);
                    kept.extend(r);
                    v
                }
                "next_back" => {
                    let r = it.as_mut().unwrap().next_back();
                    let v = item_res::<T, _>(&r);
                    kept.extend(r);
                    v
                }
                "nth" => {
                    let r = it.as_mut().unwrap().nth(n);
                    let v = item_res::<T, _>(&r);
                    kept.extend(r);
                    v
                }
                "nth_back" => {
                    let r = it.as_mut().unwrap().nth_back(n);
                    let v = item_res::<T, _>(&r);
                    kept.extend(r);
                    v
                }
                "len" => {
                    let i = it.as_ref().unwrap();
                    let l = i.len();
                    let sh = i.size_hint();
                    if sh != (l, Some(l)) {
                        json!({"k": "val", "v": l, "size_hint": [sh.0, sh.1]})
                    } else {
                        json!({"k": "val", "v": l})
                    }
                }
                "count" => json!({"k": "val", "v": it.take().unwrap().count()}),
                "last" => {
                    let r = it.take().unwrap().last();
                    let v = item_res::<T, _>(&r);
                    kept.extend(r);
                    v
                }
                "fold" | "rfold" => {
                    let i = it.take().unwrap();
                    let mut ids: Vec<u32> = Vec::new();
                    let mut cnt = 0usize;
                    let mut items: Vec<I::Item> = Vec::new();
                    let f = |mut acc: Vec<I::Item>, x: I::Item| {
                        acc.push(x);
                        acc
                    };
                    let got = if op == "fold" { i.fold(Vec::new(), f) } else { i.rfold(Vec::new(), f) };
                    for x in got {
                        ids.extend(x.ids());
                        cnt += 1;
                        items.push(x);
                    }
                    kept.extend(items);
                    json!({"k": "fold", "n": cnt, "v": ids})
                }
                "for_each" | "rev_for_each" => {
                    let i = it.take().unwrap();
                    let mut items: Vec<I::Item> = Vec::new();
                    if op == "for_each" { i.for_each(|x| items.push(x)) } else { i.rev().for_each(|x| items.push(x)) };
                    let mut ids: Vec<u32> = Vec::new();
                    let cnt = items.len();
                    for x in &items {
                        ids.extend(x.ids());
                    }
                    kept.extend(items);
                    json!({"k": "fold", "n": cnt, "v": ids})
                }
                // the predicate / closure stops at its (n+1)-th invocation: no dependence on the items themselves
                "find" | "rfind" => {
                    let target = n.checked_add(1);
                    let mut k = 0usize;
                    let i = it.as_mut().unwrap();
                    let p = |_: &I::Item| {
                        k += 1;
                        Some(k) == target
                    };
                    let r = if op == "find" { i.find(p) } else { i.rfind(p) };
                    let v = item_res::<T, _>(&r);
                    kept.extend(r);
                    v
                }
                "try_fold" | "try_rfold" => {
                    let target = n.checked_add(1);
                    let mut k = 0usize;
                    let mut found: Option<I::Item> = None;
                    let i = it.as_mut().unwrap();
                    let f = |(): (), x: I::Item| -> Option<()> {
                        k += 1;
                        if Some(k) == target {
                            found = Some(x);
                            None
                        } else {
                            Some(())
                        }
                    };
                    let _ = if op == "try_fold" { i.try_fold((), f) } else { i.try_rfold((), f) };
                    let v = item_res::<T, _>(&found);
                    kept.extend(found);
                    v
                }
                "position" | "rposition" => {
                    let target = n.checked_add(1);
                    let mut k = 0usize;
                    let i = it.as_mut().unwrap();
                    let p = |_: I::Item| {
                        k += 1;
                        Some(k) == target
                    };
                    let r = if op == "position" { i.position(p) } else { i.rposition(p) };
                    match r {
                        Some(ix) => json!({"k": "val", "v": ix}),
                        None => json!({"k": "none"}),
                    }
                }
                "index" => {
                    let f = index.expect("harness: index on a non-column iterator");
                    json!({"k": "some", "v": f(it.as_ref().unwrap(), n)})
                }
                "num_cols" => {
                    let f = num_cols.expect("harness: num_cols on a column iterator");
                    json!({"k": "val", "v": f(it.as_ref().unwrap())})
                }
                o => panic!("harness: unknown iterator op {o}"),
            }
        }) {
            Ok(v) => v,
            Err(()) => json!({"k": "panic"}),
        };
        if run.driver {
            run.obs.push(got.clone());
            if got["k"] == "panic" && op != "index" {
                return;
            }
            continue;
        }
        let ok = if !T::HAS_VALUE {
            exp["k"] == got["k"] && (exp["k"] != "val" || exp["v"] == got["v"]) && got.get("size_hint").is_none()
                && (exp["k"] != "fold" || exp["n"] == got["n"])
        } else {
            *exp == got
        };
        if !ok {
            run.fails.push(Fail::new(ci, "res", json!({"op": op, "args": a, "concrete_n": n, "expected": exp, "observed": got})));
            return;
        }
        if got["k"] == "panic" && op != "index" {
            return;
        }
    }
    // what is left must be exactly the rest of the ideal sequence
    if let Some(mut i) = it.take() {
        let expn = if run.driver { 1 << 20 } else { case["nremaining"].as_u64().unwrap() as usize };
        let got_len = i.len();
        let mut ids: Vec<u32> = Vec::new();
        let mut cnt = 0usize;
        let r = guarded(|| {
            while let Some(x) = i.next() {
                ids.extend(x.ids());
                cnt += 1;
                if cnt > expn + 64 {
                    break;
                }
            }
        });
        if run.driver {
            run.obs_remaining = Some((got_len, if r.is_err() { usize::MAX } else { cnt }, ids));
            for (j, item) in kept.into_iter().enumerate() {
                item.write(WBASE + 16 * j as u32);
            }
            return;
        }
        let exp_ids = u32s(&case["remaining"]);
        let bad = r.is_err() || cnt != expn || got_len != expn || (T::HAS_VALUE && ids != exp_ids);
        if bad {
            run.fails.push(Fail::new(run.calls.len(), "remaining", json!({"expected_n": expn, "observed_len": got_len,
                "observed_n": cnt, "expected": exp_ids, "observed": ids, "panicked": r.is_err()})));
            return;
        }
    } else if run.driver {
        // consumed by count / last / fold / rfold
    } else if !case["done"].as_bool().unwrap_or(false) {
        run.fails.push(Fail::new(run.calls.len(), "harness", json!({"note": "iterator consumed but the specification says it is not"})));
    }
    // write through every reference that was handed out
    for (j, item) in kept.into_iter().enumerate() {
        item.write(WBASE + 16 * j as u32);
    }
}

// One compiled copy per concrete receiver type (method-call syntax resolves as in user code: an inherent method of
// that name wins over the trait method), plus the generic form for third-party implementors.
macro_rules! def_kinds {
    ($ro:ident, $rw:ident, [$($gen:tt)*], $R:ty) => {
        #[allow(clippy::needless_lifetimes)]
        fn $ro<$($gen)* T: CellT>(run: &mut Run<'_>, recv: &$R, t: &str, c: usize, case: &Value) -> bool {
            match t {
                "rows" => drive::<T, _>(run, recv.rows(), None, Some(&|i| i.num_cols()), case),
                "col" => drive::<T, _>(run, recv.col(c), Some(&|i, n| i[n].origin()), None, case),
                "cells" => drive::<T, _>(run, recv.cells(), None, Some(&|i| i.num_cols()), case),
                _ => return false,
            }
            true
        }
        def_kinds!(@rw $rw, [$($gen)*], $R);
    };
    (@rw none, [$($gen:tt)*], $R:ty) => {};
    (@rw $rw:ident, [$($gen:tt)*], $R:ty) => {
        #[allow(clippy::needless_lifetimes)]
        fn $rw<$($gen)* T: CellT>(run: &mut Run<'_>, recv: &mut $R, t: &str, c: usize, case: &Value) -> bool {
            match t {
                "rows_mut" => drive::<T, _>(run, recv.rows_mut(), None, Some(&|i| i.num_cols()), case),
                "col_mut" => drive::<T, _>(run, recv.col_mut(c), Some(&|i, n| i[n].origin()), None, case),
                "cells_mut" => drive::<T, _>(run, recv.cells_mut(), None, Some(&|i| i.num_cols()), case),
                _ => return false,
            }
            true
        }
    };
}
def_kinds!(ro_kinds, rw_kinds, [R: TooDeeOpsMut<T>,], R);
def_kinds!(ro_kinds_owned, rw_kinds_owned, [], TooDee<T>);
def_kinds!(ro_kinds_vm, rw_kinds_vm, ['v,], TooDeeViewMut<'v, T>);
def_kinds!(ro_kinds_view, none, ['v,], TooDeeView<'v, T>);

fn on_leaf<T: CellT>(run: &mut Run<'_>, leaf: Leaf<'_, T>, t: &str, c: usize, case: &Value) {
    match leaf {
        Leaf::Owned(a) => {
            if ro_kinds_owned::<T>(run, &*a, t, c, case) || rw_kinds_owned::<T>(run, &mut *a, t, c, case) {
                return;
            }
            match t {
                "into_ref" => drive::<T, _>(run, (&*a).into_iter(), None, Some(&|i| i.num_cols()), case),
                "into_mut" => drive::<T, _>(run, (&mut *a).into_iter(), None, Some(&|i| i.num_cols()), case),
                _ => panic!("harness: iterator kind {t}"),
            }
        }
        Leaf::Plain(a) => {
            if ro_kinds::<_, T>(run, &*a, t, c, case) || rw_kinds::<_, T>(run, &mut *a, t, c, case) {
                return;
            }
            // the IntoIterator forms exist only for the library's own types: use cells()/cells_mut()
            match t {
                "into_ref" => drive::<T, _>(run, a.cells(), None, Some(&|i| i.num_cols()), case),
                "into_mut" => drive::<T, _>(run, a.cells_mut(), None, Some(&|i| i.num_cols()), case),
                _ => panic!("harness: iterator kind {t}"),
            }
        }
        Leaf::VM(mut v) => {
            if ro_kinds_vm::<T>(run, &v, t, c, case) || rw_kinds_vm::<T>(run, &mut v, t, c, case) {
                return;
            }
            match t {
                "into_ref" => drive::<T, _>(run, (&v).into_iter(), None, Some(&|i| i.num_cols()), case),
                "into_mut" => drive::<T, _>(run, (&mut v).into_iter(), None, Some(&|i| i.num_cols()), case),
                _ => panic!("harness: iterator kind {t}"),
            }
        }
        Leaf::V(v) => {
            if ro_kinds_view::<T>(run, &v, t, c, case) {
                return;
            }
            match t {
                "into_ref" => drive::<T, _>(run, (&v).into_iter(), None, Some(&|i| i.num_cols()), case),
                _ => panic!("harness: iterator kind {t} on a read-only view"),
            }
        }
    }
}

/// Run one iterator-family case (all concrete instantiations of its Big arguments).
pub fn run_case<T: CellT>(case: &Value, log: &mut Vec<Value>) -> Vec<Fail> {
    let calls = case["calls"].as_array().unwrap();
    let nbig = calls.iter().filter(|c| c["a"].get("n").and_then(|v| v.as_u64()).map(is_big).unwrap_or(false)).count();
    let variants = if nbig > 0 { 6 } else { 1 };
    for variant in 0..variants {
        let f = run_variant::<T>(case, variant, log);
        if !f.is_empty() {
            return f;
        }
    }
    Vec::new()
}

fn run_variant<T: CellT>(case: &Value, variant: usize, log: &mut Vec<Value>) -> Vec<Fail> {
    ledger::reset();
    canary::reset();
    fault::disarm();
    let root = &case["root"];
    let rkind = root["kind"].as_str().unwrap();
    let nc = get_u64(root, "nc") as usize;
    let nr = get_u64(root, "nr") as usize;
    let ids = get_list(root, "ids");
    let stack = parse_stack(case);
    let calls = case["calls"].as_array().unwrap();
    let t = case["kind"]["t"].as_str().unwrap().to_string();
    let c = get_u64(&case["kind"], "c") as usize;
    let mut size = (nc, nr);
    for w in &stack {
        let ext = (w.e.0 - w.s.0, w.e.1 - w.s.1);
        size = if ext.0 == 0 || ext.1 == 0 { (0, 0) } else { ext };
    }
    let driver = calls.iter().any(|c| c["x"].is_null());
    let mut run = Run { calls, variant, strides: vec![nc.max(1), size.0.max(1), 1], span: nc * nr + 2, fails: Vec::new(),
                        driver, obs: Vec::new(), obs_remaining: None };

    const EXTRA: usize = 2;
    let items: Vec<T> = make_items(&ids);
    enum RootObj<T: 'static> {
        Owned(TooDee<T>),
        Plain(Plain<T>),
        Slice(Vec<T>),
    }
    let mut rootobj = match rkind {
        "owned" => RootObj::Owned(TooDee::from_vec(nc, nr, items)),
        "plain" => RootObj::Plain(Plain::owned(TooDee::from_vec(nc, nr, items))),
        _ => {
            let mut v = items;
            for i in 0..EXTRA {
                v.push(T::make(888_000 + i as u32));
            }
            RootObj::Slice(v)
        }
    };
    let built = guarded(|| {
        let mut body = |leaf: Leaf<'_, T>| on_leaf::<T>(&mut run, leaf, &t, c, case);
        match &mut rootobj {
            RootObj::Owned(a) => {
                if stack.is_empty() { body(Leaf::Owned(a)) } else { descend_toodee::<T>(a, &stack, &mut body) }
            }
            RootObj::Plain(a) => {
                if stack.is_empty() { body(Leaf::Plain(a)) } else { descend_owned::<T, _>(a, &stack, &mut body) }
            }
            RootObj::Slice(v) => {
                if rkind == "slice_v" {
                    descend_v(TooDeeView::new(nc, nr, v), &stack, &mut body)
                } else {
                    descend_vm(TooDeeViewMut::new(nc, nr, v), &stack, &mut body)
                }
            }
        }
    });
    let mut fails = std::mem::take(&mut run.fails);
    let (obs, obs_remaining) = (std::mem::take(&mut run.obs), run.obs_remaining.take());
    if built.is_err() {
        fails.push(Fail::new(0, "create", json!({"note": "creating the receiver or the iterator panicked"})));
    }
    let n = calls.len();
    let root_now: Vec<u32> = match &rootobj {
        RootObj::Owned(a) => origins_of(a.data()),
        RootObj::Plain(a) => a.exposed_cells().iter().map(|e| e.origin()).collect(),
        RootObj::Slice(v) => {
            let o = origins_of(v);
            if T::HAS_VALUE && (0..EXTRA).any(|i| o[nc * nr + i] != T::make(888_000 + i as u32).origin()) {
                fails.push(Fail::new(n, "frame", json!({"note": "cells of the backing slice beyond the view were modified"})));
            }
            o[..nc * nr].to_vec()
        }
    };
    if driver {
        let calls_obs: Vec<Value> = calls.iter().zip(obs.iter()).map(|(c, r)| json!({"op": c["op"], "a": c["a"], "res": r})).collect();
        let (rl, rn, rids) = obs_remaining.unwrap_or((0, 0, Vec::new()));
        log.push(json!({"ev": "iter", "nc": nc, "nr": nr, "ids": ids, "stack": case["stack"], "kind": case["kind"], "calls": calls_obs,
                        "complete": calls_obs.len() == calls.len(), "consumed": rn == 0 && rl == 0 && rids.is_empty() && calls_obs.last().map(|c| matches!(c["op"].as_str(), Some("count") | Some("last") | Some("fold") | Some("rfold") | Some("for_each") | Some("rev_for_each"))).unwrap_or(false),
                        "rem_len": rl.min(1 << 20), "rem_n": rn.min(1 << 20), "remaining": rids, "final_root": root_now,
                        "built": built.is_ok()}));
    }
    if !driver && T::HAS_VALUE && fails.is_empty() && root_now != u32s(&case["final_root"]) {
        fails.push(Fail::new(n, "write_through", json!({"expected_root": case["final_root"], "observed_root": root_now})));
    }
    let _ = window_of;
    drop(rootobj);
    if T::TRACKED {
        let dd = ledger::double_drops();
        if !dd.is_empty() || ledger::garbage_drops() > 0 {
            fails.push(Fail::new(n, "ledger.double_drop", json!({"double": dd})));
        }
        if !ledger::live_serials().is_empty() {
            fails.push(Fail::new(n, "ledger.leak_at_end", json!({"origins": ledger::live_origins()})));
        }
    }
    if canary::damaged() {
        fails.push(Fail::new(n, "redzone", json!({})));
    }
    fails
}
