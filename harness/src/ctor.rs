//! Interpreter for the constructor family (`Ctor.tla`): construction requests (including huge and
//! wrap-adversarial dimensions) and equality / hash over pairs of small arrays.
use crate::canary;
use crate::cells::CellT;
use crate::ledger;
use crate::util::*;
use serde_json::{json, Value};
use std::hash::{Hash, Hasher};
use toodee::{TooDee, TooDeeOps, TooDeeView, TooDeeViewMut};

fn inv_odd(m: u64) -> u64 {
    let mut x = m;
    for _ in 0..6 {
        x = x.wrapping_mul(2u64.wrapping_sub(m.wrapping_mul(x)));
    }
    x
}

/// concrete (num_cols, num_rows) pairs standing for the request (nc, nr) with buffer length n
fn concrete_dims(nc: u64, nr: u64, n: usize) -> Vec<(usize, usize)> {
    let one = |v: u64| -> Vec<usize> { if is_big(v) { expand_big(if v == BIG_WRAP { BIG_MAX } else { v }, &[], 0, 0) } else { vec![v as usize] } };
    let mut out: Vec<(usize, usize)> = Vec::new();
    for a in one(nc) {
        for b in one(nr) {
            out.push((a, b));
        }
    }
    const HUGE: u64 = 1 << 20;
    match (is_big(nc), is_big(nr)) {
        (true, true) => {
            // products that wrap around to exactly the buffer length
            for b in [(1u64 << 33) + 1, (1u64 << 63) + 1, u64::MAX] {
                let a = (n as u64).wrapping_mul(inv_odd(b));
                if a >= HUGE {
                    out.push((a as usize, b as usize));
                    out.push((b as usize, a as usize));
                }
            }
            if n == 0 {
                out.push((1 << 32, 1 << 32));
                out.push((1 << 63, 2));
                out.push((1 << 62, 4));
            }
        }
        (true, false) | (false, true) => {
            let k = if is_big(nc) { nr } else { nc };
            if k >= 1 {
                let tz = k.trailing_zeros();
                let odd = k >> tz;
                if (n as u64) & ((1u64 << tz) - 1) == 0 {
                    let base = ((n as u64) >> tz).wrapping_mul(inv_odd(odd));
                    for t in 0..(1u64 << tz.min(2)) {
                        let a = if tz == 0 { base } else { (base & ((1u64 << (64 - tz)) - 1)).wrapping_add(t << (64 - tz)) };
                        if a >= HUGE && a.wrapping_mul(k) == n as u64 {
                            out.push(if is_big(nc) { (a as usize, k as usize) } else { (k as usize, a as usize) });
                        }
                    }
                }
            }
        }
        _ => {}
    }
    out.sort_unstable();
    out.dedup();
    out
}

fn grid_of<T: CellT, R: TooDeeOps<T>>(t: &R) -> Value {
    let (nc, nr) = t.size();
    let mut v = Vec::new();
    if (nc == 0) == (nr == 0) && nc.checked_mul(nr).map(|p| p < 1_000_000).unwrap_or(false) {
        for r in t.rows() {
            v.extend(r.iter().map(|e| e.origin()));
        }
    }
    json!({"k": "grid", "nc": nc, "nr": nr, "v": v})
}

fn run_ctor<T: CellT>(case: &Value) -> Vec<Fail> {
    ledger::reset();
    canary::reset();
    let c = case["c"].as_str().unwrap();
    let nc = get_u64(case, "nc");
    let nr = get_u64(case, "nr");
    let n = get_u64(case, "n") as usize;
    let exp = &case["x"]["res"];
    let mut fails = Vec::new();
    for (cc, cr) in concrete_dims(nc, nr, n) {
        let origins: Vec<u32> = (1..=n as u32).collect();
        let mut notes = serde_json::Map::new();
        let got = guarded(|| -> Value {
            match c {
                "new" => {
                    let t = TooDee::<T>::new(cc, cr);
                    let g = grid_of::<T, _>(&t);
                    if t.data().len() != cc * cr { json!({"k": "grid", "bad_len": t.data().len()}) } else { g }
                }
                "init" => {
                    let t = TooDee::<T>::init(cc, cr, T::make(77));
                    let g = grid_of::<T, _>(&t);
                    if t.data().len() != cc * cr { json!({"k": "grid", "bad_len": t.data().len()}) } else { g }
                }
                "from_vec" => {
                    let t = TooDee::<T>::from_vec(cc, cr, make_items(&origins));
                    grid_of::<T, _>(&t)
                }
                "from_box" => {
                    let t = TooDee::<T>::from_box(cc, cr, make_items::<T>(&origins).into_boxed_slice());
                    grid_of::<T, _>(&t)
                }
                "view_new" => {
                    let buf: Vec<T> = make_items(&origins);
                    let v = TooDeeView::new(cc, cr, &buf);
                    grid_of::<T, _>(&v)
                }
                "view_mut_new" => {
                    let mut buf: Vec<T> = make_items(&origins);
                    let g;
                    {
                        let mut v = TooDeeViewMut::new(cc, cr, &mut buf);
                        g = grid_of::<T, _>(&v);
                        // write through every cell: exactly the prefix of the buffer must change
                        let (vc, vr) = v.size();
                        if (vc == 0) == (vr == 0) {
                            for y in 0..vr {
                                for x in 0..vc {
                                    v[(x, y)] = T::make(5000 + (y * vc + x) as u32);
                                }
                            }
                        }
                    }
                    if T::HAS_VALUE {
                        let size = cc.saturating_mul(cr).min(buf.len());
                        let ok = (0..buf.len()).all(|i| buf[i].origin() == if i < size { 5000 + i as u32 } else { i as u32 + 1 });
                        if !ok {
                            return json!({"k": "grid", "write_through_wrong": origins_of(&buf)});
                        }
                    }
                    g
                }
                o => panic!("harness: ctor {o}"),
            }
        });
        let got = got.unwrap_or_else(|_| json!({"k": "panic"}));
        let ok = if exp["k"] == "panic" {
            got["k"] == "panic"
        } else if !T::HAS_VALUE {
            got["k"] == "grid" && got["nc"] == exp["nc"] && got["nr"] == exp["nr"]
        } else {
            got == *exp
        };
        if !ok {
            notes.insert("concrete".into(), json!([cc, cr]));
            fails.push(Fail::new(0, "ctor", json!({"ctor": c, "request": [nc, nr, n], "concrete": [cc, cr], "expected": exp, "observed": got})));
            break;
        }
    }
    if T::TRACKED {
        if !ledger::double_drops().is_empty() || ledger::garbage_drops() > 0 {
            fails.push(Fail::new(0, "ledger.double_drop", json!({"ctor": c})));
        }
        if exp["k"] != "panic" && !ledger::live_serials().is_empty() {
            fails.push(Fail::new(0, "ledger.leak_at_end", json!({"ctor": c, "origins": ledger::live_origins()})));
        }
    }
    if canary::damaged() {
        fails.push(Fail::new(0, "redzone", json!({"ctor": c})));
    }
    fails
}

fn build<T: CellT>(g: &Value) -> TooDee<T> {
    let nc = get_u64(g, "nc") as usize;
    let nr = get_u64(g, "nr") as usize;
    // values {0,1} of the specification become origins 3 / 7 (different keys, so Ord-based eq would differ too)
    let v: Vec<u32> = get_list(g, "v").iter().map(|&b| if b == 0 { 3 } else { 7 }).collect();
    TooDee::from_vec(nc, nr, make_items(&v))
}

/// an element type whose `==` never holds (like a NaN): equality of arrays must be decided cell by cell, never by identity
#[derive(Clone)]
struct NonRefl;
impl PartialEq for NonRefl {
    fn eq(&self, _: &NonRefl) -> bool {
        false
    }
}

fn run_eq_nonrefl(case: &Value) -> Vec<Fail> {
    let mk = |g: &Value| -> TooDee<NonRefl> {
        let nc = get_u64(g, "nc") as usize;
        let nr = get_u64(g, "nr") as usize;
        TooDee::from_vec(nc, nr, vec![NonRefl; nc * nr])
    };
    let a = mk(&case["a"]);
    let b = mk(&case["b"]);
    let exp = case["x"]["eq"].as_bool().unwrap();
    let same = case["same"].as_bool().unwrap_or(false);
    let (got, ne) = if same { (a == a, a != a) } else { (a == b, a != b) };
    let mut fails = Vec::new();
    if got != exp || ne == exp {
        fails.push(Fail::new(0, "eq", json!({"a": case["a"], "b": case["b"], "non_reflexive_elements": true, "same_object": same,
            "expected": exp, "observed": got, "ne": ne})));
    }
    fails
}

fn run_eq<T: CellT + Hash>(case: &Value) -> Vec<Fail> {
    if !case["refl"].as_bool().unwrap_or(true) {
        return run_eq_nonrefl(case);
    }
    if case["same"].as_bool().unwrap_or(false) {
        let a: TooDee<T> = build(&case["a"]);
        let exp = case["x"]["eq"].as_bool().unwrap() || !T::HAS_VALUE;
        let mut fails = Vec::new();
        if (a == a) != exp || (a != a) == exp {
            fails.push(Fail::new(0, "eq", json!({"a": case["a"], "same_object": true, "expected": exp})));
        }
        return fails;
    }
    let a: TooDee<T> = build(&case["a"]);
    let b: TooDee<T> = build(&case["b"]);
    let exp = if T::HAS_VALUE {
        case["x"]["eq"].as_bool().unwrap()
    } else {
        // a zero-sized element carries no value: only the dimensions can differ
        case["a"]["nc"] == case["b"]["nc"] && case["a"]["nr"] == case["b"]["nr"]
    };
    let mut fails = Vec::new();
    let got = a == b;
    let sym = b == a;
    let ne = a != b;
    if got != exp || sym != exp || ne == exp {
        fails.push(Fail::new(0, "eq", json!({"a": case["a"], "b": case["b"], "expected": exp, "observed": got, "symmetric": sym, "ne": ne})));
    }
    if exp {
        let mut h1 = std::collections::hash_map::DefaultHasher::new();
        let mut h2 = std::collections::hash_map::DefaultHasher::new();
        a.hash(&mut h1);
        b.hash(&mut h2);
        if h1.finish() != h2.finish() {
            fails.push(Fail::new(0, "hash", json!({"a": case["a"], "b": case["b"]})));
        }
    }
    // equal arrays hash equally also when the elements' equality is not byte identity (case-insensitive letters)
    {
        use crate::cells::Ci8;
        let nc = get_u64(&case["a"], "nc") as usize;
        let nr = get_u64(&case["a"], "nr") as usize;
        let lower: TooDee<Ci8> = TooDee::from_vec(nc, nr, (0..nc * nr).map(|i| Ci8(b'a' + (i % 26) as u8)).collect());
        let upper: TooDee<Ci8> = TooDee::from_vec(nc, nr, (0..nc * nr).map(|i| Ci8(b'A' + (i % 26) as u8)).collect());
        let mut h1 = std::collections::hash_map::DefaultHasher::new();
        let mut h2 = std::collections::hash_map::DefaultHasher::new();
        lower.hash(&mut h1);
        upper.hash(&mut h2);
        if lower != upper || h1.finish() != h2.finish() {
            fails.push(Fail::new(0, "hash", json!({"a": case["a"], "note": "arrays of case-insensitive letters: equal, yet eq / hash disagree",
                "eq": lower == upper})));
        }
    }
    // clone: equal and independent
    let mut c = a.clone();
    if c != a {
        fails.push(Fail::new(0, "clone", json!({"a": case["a"], "note": "clone differs"})));
    }
    if !c.data().is_empty() {
        use toodee::TooDeeOpsMut;
        c.fill(T::make(999));
        if origins_of(a.data()) != build::<T>(&case["a"]).data().iter().map(|e| e.origin()).collect::<Vec<_>>() {
            fails.push(Fail::new(0, "clone", json!({"a": case["a"], "note": "mutating the clone changed the original"})));
        }
    }
    fails
}

pub fn run_case<T: CellT + Hash>(case: &Value) -> Vec<Fail> {
    match case["t"].as_str().unwrap() {
        "ctor" => run_ctor::<T>(case),
        "eq" => run_eq::<T>(case),
        t => panic!("harness: ctor family {t}"),
    }
}
