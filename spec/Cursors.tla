-------------------------------- MODULE Cursors --------------------------------
(***************************************************************************)
(* Layer B for C08 / C09 / C10: the iterators as the code implements them  *)
(* (src/iter.rs, src/flattenexact.rs, as repaired by 8af6029 / 8d1e0d3):   *)
(*                                                                         *)
(*  RowsB : a shrinking slice v = [off, len] of the backing buffer plus    *)
(*          cols and skip_cols; rows are `cols + skip_cols` apart          *)
(*  ColB  : a shrinking slice plus skip; cells are `1 + skip` apart        *)
(*  FlatB : FlattenExact = (frontiter, iter, backiter) over an ideal row   *)
(*          iterator, with the case analysis of next / next_back / nth /   *)
(*          nth_back / size_hint                                           *)
(*                                                                         *)
(* Multiplications by the stride are done in W-bit machine arithmetic      *)
(* (overflowing_mul, or checked_mul for the indexers), so TLC enumerates   *)
(* EVERY argument value 0 .. 2^W-1 including those whose product wraps.    *)
(* Each operator returns the new cursor and the observable result          *)
(* (offset of the first cell of the item, or "none" / "panic"); `inb`      *)
(* records whether every unchecked slicing step stayed inside the slice    *)
(* it was applied to.                                                      *)
(***************************************************************************)
EXTENDS Naturals, Sequences, TLC

CONSTANT W                       \* machine word width of the model
Word == 2 ^ W
OvfMul(a, b) == [v |-> (a * b) % Word, ovf |-> a * b >= Word]

NoneR == [k |-> "none", v |-> 0]
SomeR(off) == [k |-> "some", v |-> off]
PanicR == [k |-> "panic", v |-> 0]
Empty == [off |-> 0, len |-> 0]
\* result of one call on a cursor: new state, result, all unchecked slicing in bounds?
CR(st, res, inb) == [st |-> st, res |-> res, inb |-> inb]

(***************************************************************************)
(* Rows / RowsMut                                                          *)
(***************************************************************************)
RowsInit(nc, nr, stride) == [v |-> IF nr = 0 THEN Empty ELSE [off |-> 0, len |-> (nr - 1) * stride + nc], cols |-> nc, skip |-> stride - nc]

RowsNext(s) ==
    IF s.v.len = 0 THEN CR(s, NoneR, TRUE)
    ELSE LET sndoff == s.v.off + s.cols  sndlen == s.v.len - s.cols IN          \* split_at(cols): requires cols <= len
         IF s.cols > s.v.len THEN CR(s, PanicR, TRUE)
         ELSE IF sndlen = 0 THEN CR([s EXCEPT !.v = Empty], SomeR(s.v.off), TRUE)
         ELSE CR([s EXCEPT !.v = [off |-> sndoff + s.skip, len |-> sndlen - s.skip]], SomeR(s.v.off), s.skip <= sndlen)
RowsNextBack(s) ==
    IF s.v.len = 0 THEN CR(s, NoneR, TRUE)
    ELSE IF s.cols > s.v.len THEN CR(s, PanicR, TRUE)
    ELSE LET fstlen == s.v.len - s.cols IN
         IF fstlen = 0 THEN CR([s EXCEPT !.v = Empty], SomeR(s.v.off + fstlen), TRUE)
         ELSE CR([s EXCEPT !.v = [off |-> s.v.off, len |-> fstlen - s.skip]], SomeR(s.v.off + fstlen), s.skip <= fstlen)
RowsNth(s, n) ==
    LET m == OvfMul(n, s.cols + s.skip) IN
    IF m.v >= s.v.len \/ m.ovf THEN RowsNext([s EXCEPT !.v = Empty])
    ELSE RowsNext([s EXCEPT !.v = [off |-> s.v.off + m.v, len |-> s.v.len - m.v]])
RowsNthBack(s, n) ==
    LET m == OvfMul(n, s.cols + s.skip) IN
    IF m.v >= s.v.len \/ m.ovf THEN RowsNextBack([s EXCEPT !.v = Empty])
    ELSE RowsNextBack([s EXCEPT !.v = [off |-> s.v.off, len |-> s.v.len - m.v]])
RowsLen(s) == IF s.cols = 0 THEN 0
              ELSE LET d == s.cols + s.skip IN (s.v.len \div d) + ((s.v.len % d) \div s.cols)
\* representation invariant: the slice starts and ends with a whole row
RowsRep(s) == s.v.len = 0 \/ (s.v.len >= s.cols /\ (s.v.len - s.cols) % (s.cols + s.skip) = 0)

(***************************************************************************)
(* Col / ColMut                                                            *)
(***************************************************************************)
ColInit(c, nr, stride) == [v |-> IF nr = 0 THEN [off |-> c, len |-> 0] ELSE [off |-> c, len |-> (nr - 1) * stride + 1], skip |-> stride - 1]

ColNext(s) ==
    IF s.v.len = 0 THEN CR(s, NoneR, TRUE)
    ELSE LET sndlen == s.v.len - 1 IN
         IF sndlen = 0 THEN CR([s EXCEPT !.v = Empty], SomeR(s.v.off), TRUE)
         ELSE CR([s EXCEPT !.v = [off |-> s.v.off + 1 + s.skip, len |-> sndlen - s.skip]], SomeR(s.v.off), s.skip <= sndlen)
ColNextBack(s) ==
    IF s.v.len = 0 THEN CR(s, NoneR, TRUE)
    ELSE LET fstlen == s.v.len - 1 IN
         IF fstlen = 0 THEN CR([s EXCEPT !.v = Empty], SomeR(s.v.off + fstlen), TRUE)
         ELSE CR([s EXCEPT !.v = [off |-> s.v.off, len |-> fstlen - s.skip]], SomeR(s.v.off + fstlen), s.skip <= fstlen)
ColNth(s, n) ==
    LET m == OvfMul(n, 1 + s.skip) IN
    IF m.v >= s.v.len \/ m.ovf THEN ColNext([s EXCEPT !.v = Empty])
    ELSE ColNext([s EXCEPT !.v = [off |-> s.v.off + m.v, len |-> s.v.len - m.v]])
ColNthBack(s, n) ==
    LET m == OvfMul(n, 1 + s.skip) IN
    IF m.v >= s.v.len \/ m.ovf THEN ColNextBack([s EXCEPT !.v = Empty])
    ELSE ColNextBack([s EXCEPT !.v = [off |-> s.v.off, len |-> s.v.len - m.v]])
ColLen(s) == LET d == 1 + s.skip IN (s.v.len \div d) + (s.v.len % d)
\* indexing: checked_mul, then a bounds-checked slice index
ColIndex(s, i) == LET m == OvfMul(i, 1 + s.skip) IN
                  IF m.ovf \/ m.v >= s.v.len THEN CR(s, PanicR, TRUE) ELSE CR(s, SomeR(s.v.off + m.v), TRUE)
ColRep(s) == s.v.len = 0 \/ (s.v.len - 1) % (1 + s.skip) = 0

(***************************************************************************)
(* FlattenExact over an IDEAL row iterator: rows rlo .. rhi-1 remain.      *)
(* An inner (row) iterator is [some, row, a, b]: cells a .. b-1 of `row`.  *)
(* A cell is reported as its row-major index row * nc + x.                 *)
(***************************************************************************)
NoInner == [some |-> FALSE, row |-> 0, a |-> 0, b |-> 0]
Inner(row, a, b) == [some |-> TRUE, row |-> row, a |-> a, b |-> b]
ILen(i) == IF i.some THEN i.b - i.a ELSE 0
FlatInit(nc, nr) == [nc |-> nc, rlo |-> 0, rhi |-> nr, f |-> NoInner, bk |-> NoInner]
CellIx(s, row, x) == row * s.nc + x

\* slice::Iter::nth / nth_back on an inner iterator (beyond the end: None and emptied)
InnerNth(s, i, n) == IF n < ILen(i) THEN [i |-> [i EXCEPT !.a = @ + n + 1], res |-> SomeR(CellIx(s, i.row, i.a + n))]
                     ELSE [i |-> [i EXCEPT !.a = i.b], res |-> NoneR]
InnerNthBack(s, i, n) == IF n < ILen(i) THEN [i |-> [i EXCEPT !.b = @ - n - 1], res |-> SomeR(CellIx(s, i.row, i.b - 1 - n))]
                         ELSE [i |-> [i EXCEPT !.b = i.a], res |-> NoneR]

RECURSIVE FlatNext(_)
FlatNext(s) ==
    IF s.f.some /\ s.f.a < s.f.b THEN CR([s EXCEPT !.f.a = @ + 1], SomeR(CellIx(s, s.f.row, s.f.a)), TRUE)
    ELSE IF s.rlo < s.rhi THEN FlatNext([s EXCEPT !.f = Inner(s.rlo, 0, s.nc), !.rlo = @ + 1])       \* loop with the next row
    ELSE IF s.bk.some /\ s.bk.a < s.bk.b THEN CR([s EXCEPT !.bk.a = @ + 1], SomeR(CellIx(s, s.bk.row, s.bk.a)), TRUE)
    ELSE CR(s, NoneR, TRUE)
RECURSIVE FlatNextBack(_)
FlatNextBack(s) ==
    IF s.bk.some /\ s.bk.a < s.bk.b THEN CR([s EXCEPT !.bk.b = @ - 1], SomeR(CellIx(s, s.bk.row, s.bk.b - 1)), TRUE)
    ELSE IF s.rlo < s.rhi THEN FlatNextBack([s EXCEPT !.bk = Inner(s.rhi - 1, 0, s.nc), !.rhi = @ - 1])
    ELSE IF s.f.some /\ s.f.a < s.f.b THEN CR([s EXCEPT !.f.b = @ - 1], SomeR(CellIx(s, s.f.row, s.f.b - 1)), TRUE)
    ELSE CR(s, NoneR, TRUE)
FlatLen(s) == s.nc * (s.rhi - s.rlo) + ILen(s.f) + ILen(s.bk)
Min(a, b) == IF a <= b THEN a ELSE b
FlatNth(s, n0) ==
    IF s.nc = 0 THEN CR(s, NoneR, TRUE)
    ELSE IF s.f.some /\ n0 < ILen(s.f) THEN LET r == InnerNth(s, s.f, n0) IN CR([s EXCEPT !.f = r.i], r.res, TRUE)
    ELSE LET n1 == IF s.f.some THEN n0 - ILen(s.f) ELSE n0
             s1 == [s EXCEPT !.f = IF s.f.some THEN NoInner ELSE s.f]
             skipn == Min(s1.rhi - s1.rlo, n1 \div s1.nc)
         IN IF s1.rlo + skipn < s1.rhi                                   \* self.iter.nth(iter_skip) yields a row
            THEN LET row == s1.rlo + skipn  n2 == n1 - skipn * s1.nc
                     r == InnerNth(s1, Inner(row, 0, s1.nc), n2)
                 IN CR([s1 EXCEPT !.rlo = row + 1, !.f = r.i], r.res, n2 < s1.nc)      \* debug_assert!(n < tmp.len())
            ELSE LET n2 == n1 - skipn * s1.nc  s2 == [s1 EXCEPT !.rlo = s1.rhi] IN
                 IF s2.bk.some THEN LET r == InnerNth(s2, s2.bk, n2) IN CR([s2 EXCEPT !.bk = r.i], r.res, TRUE)
                 ELSE CR(s2, NoneR, TRUE)
FlatNthBack(s, n0) ==
    IF s.nc = 0 THEN CR(s, NoneR, TRUE)
    ELSE IF s.bk.some /\ n0 < ILen(s.bk) THEN LET r == InnerNthBack(s, s.bk, n0) IN CR([s EXCEPT !.bk = r.i], r.res, TRUE)
    ELSE LET n1 == IF s.bk.some THEN n0 - ILen(s.bk) ELSE n0
             s1 == [s EXCEPT !.bk = IF s.bk.some THEN NoInner ELSE s.bk]
             skipn == Min(s1.rhi - s1.rlo, n1 \div s1.nc)
         IN IF s1.rlo + skipn < s1.rhi
            THEN LET row == s1.rhi - 1 - skipn  n2 == n1 - skipn * s1.nc
                     r == InnerNthBack(s1, Inner(row, 0, s1.nc), n2)
                 IN CR([s1 EXCEPT !.rhi = row, !.bk = r.i], r.res, n2 < s1.nc)
            ELSE LET n2 == n1 - skipn * s1.nc  s2 == [s1 EXCEPT !.rhi = s1.rlo] IN
                 IF s2.f.some THEN LET r == InnerNthBack(s2, s2.f, n2) IN CR([s2 EXCEPT !.f = r.i], r.res, TRUE)
                 ELSE CR(s2, NoneR, TRUE)
\* every cell is in exactly one of the three parts, and the parts are in order
FlatRep(s) == /\ s.rlo <= s.rhi
              /\ (s.f.some => s.f.a <= s.f.b /\ s.f.b <= s.nc /\ s.f.row < s.rlo)
              /\ (s.bk.some => s.bk.a <= s.bk.b /\ s.bk.b <= s.nc /\ s.bk.row >= s.rhi)

(***************************************************************************)
(* What a cursor still holds, obtained by draining it with its own next(): *)
(* the refinement checks compare this with the ideal remaining sequence.   *)
(***************************************************************************)
RECURSIVE RowsDrain(_, _)
RowsDrain(s, fuel) == IF fuel = 0 THEN <<Word>>
                      ELSE LET r == RowsNext(s) IN IF r.res.k # "some" THEN << >> ELSE <<r.res.v>> \o RowsDrain(r.st, fuel - 1)
RECURSIVE ColDrain(_, _)
ColDrain(s, fuel) == IF fuel = 0 THEN <<Word>>
                     ELSE LET r == ColNext(s) IN IF r.res.k # "some" THEN << >> ELSE <<r.res.v>> \o ColDrain(r.st, fuel - 1)
RECURSIVE FlatDrain(_, _)
FlatDrain(s, fuel) == IF fuel = 0 THEN <<Word>>
                      ELSE LET r == FlatNext(s) IN IF r.res.k # "some" THEN << >> ELSE <<r.res.v>> \o FlatDrain(r.st, fuel - 1)
=============================================================================
