-------------------------------- MODULE SeqIter --------------------------------
(***************************************************************************)
(* Layer A for C08 / C09 / C10: every iterator of the library IS the ideal *)
(* double-ended, exact-size sequence of its items.                         *)
(*                                                                         *)
(* items of rows()/rows_mut()  : the NR row slices of the receiver         *)
(* items of col(c)/col_mut(c)  : the NR cells of column c, top to bottom   *)
(* items of cells()/cells_mut(): the NC*NR cells in row-major order        *)
(*                                                                         *)
(* An iterator state is just (lo, hi): the remaining items are             *)
(* lo+1 .. hi of the n original ones.  Every call has one meaning below;   *)
(* arguments above BIG are only known to exceed every length.              *)
(***************************************************************************)
EXTENDS Access

RowKinds  == {"rows", "rows_mut"}
ColKinds  == {"col", "col_mut"}
CellKinds == {"cells", "cells_mut", "into_ref", "into_mut"}
MutKinds  == {"rows_mut", "col_mut", "cells_mut", "into_mut"}

None   == [k |-> "none"]
Val(n) == [k |-> "val", v |-> n]

NItems(w, kind) == IF kind.t \in CellKinds THEN NC(w) * NR(w) ELSE NR(w)
\* the cells (values) of item i (1-based), in order
ItemCells(w, kind, i) == IF kind.t \in RowKinds THEN RowOf(w, i - 1)
                         ELSE IF kind.t \in ColKinds THEN <<Cell(w, kind.c, i - 1)>>
                         ELSE <<w[((i - 1) \div NC(w)) + 1][((i - 1) % NC(w)) + 1]>>
ItemRes(w, kind, i) == IF kind.t \in RowKinds THEN Ids(RowOf(w, i - 1)) ELSE Some(ItemCells(w, kind, i)[1])

\* the cells of items a..b in order (closed form: the recursive definition is quadratic on long sequences)
CellsOfRange(w, kind, a, b) ==
    IF a > b THEN << >>
    ELSE IF kind.t \in RowKinds THEN SubSeq(Flat(w), (a - 1) * NC(w) + 1, b * NC(w))
    ELSE IF kind.t \in ColKinds THEN [i \in 1..(b - a + 1) |-> Cell(w, kind.c, a + i - 2)]
    ELSE SubSeq(Flat(w), a, b)
RECURSIVE CellsOfRangeRev(_, _, _, _)
CellsOfRangeRev(w, kind, a, b) == IF a > b THEN << >> ELSE ItemCells(w, kind, b) \o CellsOfRangeRev(w, kind, a, b - 1)
Fold(n, cells) == [k |-> "fold", n |-> n, v |-> cells]

\* result record of a call: new lo/hi, result, the item indices yielded (in order), consumed?
IR(lo, hi, res, y, done) == [lo |-> lo, hi |-> hi, res |-> res, y |-> y, done |-> done]

IterOps == {"next", "next_back", "nth", "nth_back", "len", "count", "last", "fold", "rfold", "index", "num_cols",
            "find", "rfind", "try_fold", "try_rfold", "position", "rposition", "for_each", "rev_for_each"}
\* The provided methods of Iterator / DoubleEndedIterator mean what they mean for the ideal sequence, whether the
\* library inherits them or overrides them.  The harness's predicate / closure stops at its (n+1)-th invocation, so
\* find, try_fold == nth;  rfind, try_rfold == nth_back;  position / rposition consume alike but return an index;
\* for_each == fold;  rev().for_each == rfold.

IterApply(w, kind, lo, hi, op, a) ==
    LET rem == hi - lo IN
    CASE op = "next"      -> IF rem > 0 THEN IR(lo + 1, hi, ItemRes(w, kind, lo + 1), <<lo + 1>>, FALSE)
                             ELSE IR(lo, hi, None, << >>, FALSE)
      [] op = "next_back" -> IF rem > 0 THEN IR(lo, hi - 1, ItemRes(w, kind, hi), <<hi>>, FALSE)
                             ELSE IR(lo, hi, None, << >>, FALSE)
      [] op \in {"nth", "find", "try_fold"} -> IF ~IsBig(a.n) /\ a.n < rem
                             THEN IR(lo + a.n + 1, hi, ItemRes(w, kind, lo + a.n + 1), <<lo + a.n + 1>>, FALSE)
                             ELSE IR(hi, hi, None, << >>, FALSE)                      \* exhausted
      [] op \in {"nth_back", "rfind", "try_rfold"} -> IF ~IsBig(a.n) /\ a.n < rem
                             THEN IR(lo, hi - a.n - 1, ItemRes(w, kind, hi - a.n), <<hi - a.n>>, FALSE)
                             ELSE IR(lo, lo, None, << >>, FALSE)
      [] op = "len"       -> IR(lo, hi, Val(rem), << >>, FALSE)                        \* len() and both size_hint bounds
      [] op = "count"     -> IR(hi, hi, Val(rem), << >>, TRUE)
      [] op = "last"      -> IF rem > 0 THEN IR(hi, hi, ItemRes(w, kind, hi), <<hi>>, TRUE) ELSE IR(lo, hi, None, << >>, TRUE)
      [] op = "position"  -> IF ~IsBig(a.n) /\ a.n < rem THEN IR(lo + a.n + 1, hi, Val(a.n), << >>, FALSE)
                             ELSE IR(hi, hi, None, << >>, FALSE)
      [] op = "rposition" -> IF ~IsBig(a.n) /\ a.n < rem THEN IR(lo, hi - a.n - 1, Val(rem - 1 - a.n), << >>, FALSE)
                             ELSE IR(lo, lo, None, << >>, FALSE)
      [] op \in {"fold", "for_each"} -> IR(hi, hi, Fold(rem, CellsOfRange(w, kind, lo + 1, hi)), [i \in 1..rem |-> lo + i], TRUE)
      [] op \in {"rfold", "rev_for_each"} -> IR(lo, lo, Fold(rem, CellsOfRangeRev(w, kind, lo + 1, hi)), [i \in 1..rem |-> hi + 1 - i], TRUE)
      [] op = "index"     -> IF ~IsBig(a.n) /\ a.n < rem THEN IR(lo, hi, Some(ItemCells(w, kind, lo + a.n + 1)[1]), << >>, FALSE)
                             ELSE IR(lo, hi, Panic, << >>, FALSE)
      [] op = "num_cols"  -> IR(lo, hi, Val(NC(w)), << >>, FALSE)

OpAllowed(kind, op) == /\ (op = "index" => kind.t \in ColKinds)
                       /\ (op = "num_cols" => kind.t \notin ColKinds)

(***************************************************************************)
(* Write-through of the Mut variants: the harness keeps every yielded      *)
(* reference and, when the call sequence is over, writes                   *)
(*     WBase + 16 * j + x                                                  *)
(* into cell x (0-based) of the j-th (0-based) yielded item.  `ys` is the  *)
(* sequence of yielded item indices of the whole history.                  *)
(***************************************************************************)
WBase == 2000
\* position (1-based) in ys of item i, or 0
RECURSIVE PosIn(_, _, _)
PosIn(ys, i, k) == IF k > Len(ys) THEN 0 ELSE IF ys[k] = i THEN k ELSE PosIn(ys, i, k + 1)
WrittenWindow(w, kind, ys) ==
    LET yset == Range(ys) IN
    [y \in 1..NR(w) |-> [x \in 1..NC(w) |->
        LET item == IF kind.t \in RowKinds THEN y
                    ELSE IF kind.t \in ColKinds THEN (IF x = kind.c + 1 THEN y ELSE 0)
                    ELSE (y - 1) * NC(w) + x
            off  == IF kind.t \in RowKinds THEN x - 1 ELSE 0
            p    == IF item = 0 \/ item \notin yset THEN 0 ELSE PosIn(ys, item, 1)
        IN IF p = 0 THEN w[y][x] ELSE WBase + 16 * (p - 1) + off]]
\* no item is ever yielded twice (disjointness of the mutable references)
YieldOnce(ys) == NoDup(ys)
=============================================================================
