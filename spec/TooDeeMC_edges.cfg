SPECIFICATION Spec
CONSTANTS
  MaxC = 3
  MaxR = 3
  Emit = TRUE
  Walk = FALSE
  WalkLen = 0
CONSTRAINT Bounded
VIEW View
INVARIANTS ShapeOK HandleOK GoneIsEmpty
CHECK_DEADLOCK FALSE
