-------------------------------- MODULE Algos --------------------------------
(***************************************************************************)
(* Layer B for C14 / C15 / C16 / C17: the in-place algorithms as the code  *)
(* performs them, transcribed loop by loop, and checked by TLC to compute  *)
(* exactly the Layer A operators of Grid.tla for every small input.        *)
(*                                                                         *)
(*  TranslateAlg  : src/translate.rs translate_with_wrap - the cycle-leader*)
(*                  row walk with the rotate-while-swapping step           *)
(*  SwapTraceAlg  : src/sort.rs build_swap_trace - turns the sorted index  *)
(*                  list into a list of transpositions, in place           *)
(*  CopyWithinAlg : src/copy.rs copy_within - row by row, direction chosen *)
(*                  so that overlapping source rows are read before they   *)
(*                  are overwritten                                        *)
(***************************************************************************)
EXTENDS Grid, TLC

(* ------------------------------------------------------------------ *)
(* translate_with_wrap                                                 *)
(* ------------------------------------------------------------------ *)
RotLeft(row, k) == [x \in 1..Len(row) |-> row[((x - 1 + k) % Len(row)) + 1]]
\* base[..mid] <-> next[C-mid..C]   and   base[mid..C] <-> next[..C-mid]
SwapRotate(g, base, nxt, mid) ==
    LET C == NC(g)  b == g[base + 1]  n == g[nxt + 1]
        b2 == [x \in 1..C |-> IF x <= mid THEN n[C - mid + x] ELSE n[x - mid]]
        n2 == [x \in 1..C |-> IF x > C - mid THEN b[x - (C - mid)] ELSE b[mid + x]]
    IN [g EXCEPT ![base + 1] = b2, ![nxt + 1] = n2]

\* state of the two nested loops; `bad` records a row index out of range or row_pair_mut(r, r)
RECURSIVE InnerLoop(_, _)
InnerLoop(s, fuel) ==
    IF fuel = 0 THEN [s EXCEPT !.bad = TRUE]
    ELSE LET nr == NR(s.g)  C == NC(s.g)
             nxt == IF s.next >= nr THEN s.next - nr ELSE s.next
             sc == s.swaps + 1
         IN IF nxt >= nr THEN [s EXCEPT !.bad = TRUE]
            ELSE IF s.base = nxt
            THEN \* finish the cycle with a rotate
                 [s EXCEPT !.swaps = sc, !.g = IF s.mid > 0 THEN [s.g EXCEPT ![s.base + 1] = RotLeft(s.g[s.base + 1], s.mid)] ELSE s.g]
            ELSE LET g2 == SwapRotate(s.g, s.base, nxt, s.mid)
                     m2 == IF s.mid + s.colmid >= C THEN s.mid + s.colmid - C ELSE s.mid + s.colmid
                 IN InnerLoop([s EXCEPT !.g = g2, !.swaps = sc, !.mid = m2, !.next = nxt + s.adj], fuel - 1)
RECURSIVE OuterLoop(_, _)
OuterLoop(s, fuel) ==
    IF fuel = 0 THEN [s EXCEPT !.bad = TRUE]
    ELSE IF s.swaps >= NR(s.g) THEN s
    ELSE LET s1 == InnerLoop([s EXCEPT !.mid = s.colmid, !.next = s.base + s.adj], NR(s.g) + 2) IN
         IF s1.bad \/ s1.swaps >= NR(s1.g) THEN s1
         ELSE OuterLoop([s1 EXCEPT !.base = @ + 1], fuel - 1)

TranslateAlg(g, m) ==
    LET C == NC(g)  R == NR(g)
        cm == IF m[1] = C THEN 0 ELSE m[1]
        rm == IF m[2] = R THEN 0 ELSE m[2]
    IN IF rm = 0
       THEN [g |-> IF cm # 0 THEN [y \in 1..R |-> RotLeft(g[y], cm)] ELSE g, bad |-> FALSE]
       ELSE LET s == OuterLoop([g |-> g, swaps |-> 0, base |-> 0, mid |-> cm, next |-> 0, colmid |-> cm, adj |-> R - rm, bad |-> FALSE], R + 2)
            IN [g |-> s.g, bad |-> s.bad]

(* ------------------------------------------------------------------ *)
(* build_swap_trace                                                    *)
(* ------------------------------------------------------------------ *)
\* `ord` = sequence of pairs <<orig, inv>>, 1-based positions hold 0-based indices as in the code
RECURSIVE InvFill(_, _)
InvFill(ord, idx) == IF idx >= Len(ord) THEN ord
                     ELSE LET v == ord[idx + 1][1] IN InvFill([ord EXCEPT ![v + 1] = <<ord[v + 1][1], idx>>], idx + 1)
RECURSIVE TraceLoop(_, _, _, _)
\* returns [trace, bad]; `bad` = an index outside 0..len-1 was used with get_unchecked
TraceLoop(ord, i, count, bad) ==
    IF i >= Len(ord) THEN [trace |-> SubSeq(ord, 1, count), bad |-> bad]
    ELSE LET other == ord[i + 1][1]  invi == ord[i + 1][2] IN
         IF i = other THEN TraceLoop(ord, i + 1, count, bad)
         ELSE LET o1 == [ord EXCEPT ![count + 1] = <<i, other>>]
                  oob == invi >= Len(ord) \/ other >= Len(ord)
                  o15 == IF invi > i /\ ~oob THEN [o1 EXCEPT ![invi + 1] = <<other, o1[invi + 1][2]>>] ELSE o1    \* ordering[inv_i].0 = other
                  o2 == IF invi > i /\ ~oob THEN [o15 EXCEPT ![other + 1] = <<o15[other + 1][1], invi>>] ELSE o1      \* ordering[other].1 = inv_i
              IN TraceLoop(o2, i + 1, count + 1, bad \/ oob)
\* perm: 1-based sequence, perm[i] = 1-based original index of the element that sorts to position i
SwapTraceAlg(perm) == TraceLoop(InvFill([i \in 1..Len(perm) |-> <<perm[i] - 1, 0>>], 0), 0, 0, FALSE)
\* apply the transpositions, left to right, to a line of cells
RECURSIVE ApplySwaps(_, _, _)
ApplySwaps(line, trace, k) == IF k > Len(trace) THEN line
                              ELSE LET a == trace[k][1] + 1  b == trace[k][2] + 1 IN
                                   ApplySwaps([line EXCEPT ![a] = line[b], ![b] = line[a]], trace, k + 1)

(* ------------------------------------------------------------------ *)
(* copy_within                                                         *)
(* ------------------------------------------------------------------ *)
CopyRow(g, sr, dr, tl0, br0, d0) ==       \* d[dest.0 .. dest.0+cols] = s[top_left.0 .. bottom_right.0]
    LET src == g[sr + 1] IN
    [g EXCEPT ![dr + 1] = [x \in 1..NC(g) |-> IF x > d0 /\ x <= d0 + (br0 - tl0) THEN src[tl0 + (x - d0)] ELSE g[dr + 1][x]]]
RECURSIVE CopyRows(_, _, _, _, _, _, _)
\* rows taken from the list `rows` in order
CopyRows(g, rows, k, off, tl0, br0, d0) ==
    IF k > Len(rows) THEN g ELSE CopyRows(CopyRow(g, rows[k], rows[k] + off, tl0, br0, d0), rows, k + 1, off, tl0, br0, d0)
CopyWithinAlg(g, tl, br, d) ==
    LET h == br[2] - tl[2]
        asc == [i \in 1..h |-> tl[2] + i - 1]
        desc == [i \in 1..h |-> br[2] - i]
    IN IF tl[2] < d[2] THEN CopyRows(g, desc, 1, d[2] - tl[2], tl[1], br[1], d[1])          \* moving down: bottom row first
       ELSE IF tl[2] > d[2] THEN
            \* moving up: top row first; (row offset is negative: model with explicit destination rows)
            LET RECURSIVE Up(_, _)
                Up(gg, k) == IF k > h THEN gg ELSE Up(CopyRow(gg, asc[k], asc[k] - (tl[2] - d[2]), tl[1], br[1], d[1]), k + 1)
            IN Up(g, 1)
       ELSE \* same rows: slice::copy_within (memmove) per row
            [y \in 1..NR(g) |-> IF y > tl[2] /\ y <= br[2]
                               THEN [x \in 1..NC(g) |-> IF x > d[1] /\ x <= d[1] + (br[1] - tl[1]) THEN g[y][tl[1] + (x - d[1])] ELSE g[y][x]]
                               ELSE g[y]]
=============================================================================
