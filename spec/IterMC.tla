-------------------------------- MODULE IterMC --------------------------------
(***************************************************************************)
(* Model-checking wrapper for SeqIter.tla: every iterator kind over every  *)
(* receiver (shape, window stack), every call with every argument from     *)
(* every reachable (lo, hi) state (edges mode), or every call SEQUENCE up  *)
(* to a depth bound (sequence mode), or random walks (tlc -simulate).      *)
(***************************************************************************)
EXTENDS SeqIter, Json

CONSTANTS Shapes, RootKinds, Depth,   \* receivers, as in AccessMC
          Kinds,                      \* subset of RowKinds \cup ColKinds \cup CellKinds
          BigArgs,
          SeqMode,                    \* TRUE: distinguish states by their call history (all sequences)
          MaxCalls,                   \* bound on the number of calls when SeqMode or walking
          Walk                        \* TRUE: tlc -simulate; cases printed when MaxCalls calls were made

VARIABLES root, rkind, stack, kind, lo, hi, done, ys, calls
vars == <<root, rkind, stack, kind, lo, hi, done, ys, calls>>

MkRoot(sh) == FromFlat(sh[1], sh[2], [i \in 1..(sh[1] * sh[2]) |-> 3 * i])
Unset == [t |-> "unset", c |-> 0]
W == Recv(root, stack)
RootMutable == rkind \in {"owned", "slice_m"}
LeafMutable == RootMutable /\ Mutable(stack)

FinalRoot(ys2) == IF kind.t \in MutKinds THEN PutBack(root, stack, WrittenWindow(W, kind, ys2)) ELSE root
Case(cs, lo2, hi2, done2, ys2) ==
    [fam |-> "iter", root |-> [kind |-> rkind, nc |-> NC(root), nr |-> NR(root), ids |-> Flat(root)],
     stack |-> stack, kind |-> kind, calls |-> cs, done |-> done2,
     remaining |-> IF done2 THEN << >> ELSE CellsOfRange(W, kind, lo2 + 1, hi2),
     nremaining |-> IF done2 THEN 0 ELSE hi2 - lo2,
     final_root |-> Flat(FinalRoot(ys2))]

PushView == /\ kind = Unset /\ Len(stack) < Depth
            /\ LET z == Abs(root, stack).z IN
               \E k \in {"v", "m"}, sc \in 0..z[1], ec \in 0..z[1], sr \in 0..z[2], er \in 0..z[2] :
                 /\ sc <= ec /\ sr <= er
                 /\ (k = "m" => LeafMutable)
                 /\ stack' = Append(stack, [k |-> k, s |-> <<sc, sr>>, e |-> <<ec, er>>])
            /\ UNCHANGED <<root, rkind, kind, lo, hi, done, ys, calls>>

Start == /\ kind = Unset
         /\ \E t \in Kinds :
              /\ (t \in MutKinds => LeafMutable)
              /\ \E c \in (IF t \in ColKinds THEN 0..(NC(W) - 1) ELSE {0}) :
                   /\ kind' = [t |-> t, c |-> c]
                   /\ lo' = 0 /\ hi' = NItems(W, [t |-> t, c |-> c])
         /\ UNCHANGED <<root, rkind, stack, done, ys, calls>>

Do(op, a) ==
    /\ kind # Unset /\ ~done /\ OpAllowed(kind, op)
    /\ (SeqMode \/ Walk) => Len(calls) < MaxCalls
    /\ LET r == IterApply(W, kind, lo, hi, op, a)
           cs == Append(calls, [op |-> op, a |-> a, x |-> [res |-> r.res]])
           ys2 == ys \o r.y
       IN /\ Assert(0 <= r.lo /\ r.lo <= r.hi /\ r.hi <= NItems(W, kind), <<"Range", kind, lo, hi, op, a>>)
          /\ Assert(YieldOnce(ys2), <<"YieldOnce", kind, ys2>>)
          /\ lo' = r.lo /\ hi' = r.hi /\ done' = r.done /\ ys' = ys2 /\ calls' = cs
          /\ UNCHANGED <<root, rkind, stack, kind>>
          /\ ~Walk => PrintT(<<"CASE", ToJson(Case(cs, r.lo, r.hi, r.done, ys2))>>)

NoArg == [z |-> 0]
Ns == 0..(hi - lo + 1) \cup BigArgs
Call == \/ \E op \in {"next", "next_back", "len", "count", "last", "fold", "rfold", "num_cols", "for_each", "rev_for_each"} : Do(op, NoArg)
        \/ \E op \in {"nth", "nth_back", "index"}, n \in Ns : Do(op, [n |-> n])
        \/ \E op \in {"find", "rfind", "try_fold", "try_rfold", "position", "rposition"}, n \in 0..(hi - lo + 1) : Do(op, [n |-> n])

Init == /\ \E sh \in Shapes : root = MkRoot(<<sh \div 10, sh % 10>>)
        /\ rkind \in RootKinds
        /\ stack = << >> /\ kind = Unset /\ lo = 0 /\ hi = 0 /\ done = FALSE /\ ys = << >> /\ calls = << >>

Next == PushView \/ Start \/ Call
Spec == Init /\ [][Next]_vars

OpSeq == [i \in DOMAIN calls |-> <<calls[i].op, calls[i].a>>]
View == <<Dims(root), rkind, stack, kind, lo, hi, done, IF SeqMode THEN OpSeq ELSE << >>>>

(* ---- Layer A invariants ---- *)
RangeInv == 0 <= lo /\ lo <= hi /\ (kind # Unset => hi <= NItems(W, kind))
YieldInv == YieldOnce(ys)              \* mutable references handed out are pairwise disjoint items
DoneInv  == done => lo = hi \/ calls[Len(calls)].op = "last"

WalkEmit == (Walk /\ kind # Unset /\ (Len(calls) = MaxCalls \/ (done /\ Len(calls) > 0)))
               => PrintT(<<"CASE", ToJson(Case(calls, lo, hi, done, ys))>>)
=============================================================================
