------------------------------- MODULE CursorsMC -------------------------------
(***************************************************************************)
(* Refinement check of the Layer B cursors (Cursors.tla) against the ideal *)
(* sequence (SeqIter.tla), for every reachable CONCRETE cursor state and   *)
(* every call with every W-bit argument.  Because the VIEW is the concrete *)
(* state, each distinct combination of "front row partly consumed / rows   *)
(* left / back row partly consumed" is explored once, and every call from  *)
(* it (with arguments up to EmitMaxN) is emitted as a replay case reached  *)
(* by a shortest call sequence - coverage the (lo,hi) abstraction of       *)
(* IterMC cannot give.                                                     *)
(***************************************************************************)
EXTENDS SeqIter, Json

CONSTANTS W, MaxC, MaxR, MaxSkip, CKinds, EmitMaxN, Emit
C == INSTANCE Cursors

VARIABLES root, stack, kind, b, lo, hi, calls, ys, last
vars == <<root, stack, kind, b, lo, hi, calls, ys, last>>

MkRoot(sh) == FromFlat(sh[1], sh[2], [i \in 1..(sh[1] * sh[2]) |-> 3 * i])
Wg == Recv(root, stack)
Stride == NC(root)
Base(t) == IF t \in RowKinds THEN "rows" ELSE IF t \in ColKinds THEN "col" ELSE "cells"
NoLast == [op |-> "init", a |-> 0, ra |-> None, rb |-> C!NoneR, inb |-> TRUE]

\* id of the cell a Layer B result points at
IdAtOffset(off) == IF Base(kind.t) = "cells" THEN Flat(Wg)[off + 1] ELSE Flat(root)[off + 1]
FirstId(res) == IF res.k = "ids" THEN res.v[1] ELSE res.v
\* Layer A result vs Layer B result
SameResult(ra, rb) == \/ ra.k = "none" /\ rb.k = "none"
                      \/ ra.k = "panic" /\ rb.k = "panic"
                      \/ ra.k \in {"some", "ids"} /\ rb.k = "some" /\ (NC(Wg) = 0 \/ FirstId(ra) = IdAtOffset(rb.v))
\* ideal remaining items as first-cell ids
IdealRemaining(l, h) == [i \in 1..(h - l) |-> ItemCells(Wg, kind, l + i)[1]]
BDrainOf(st) == LET d == CASE Base(kind.t) = "rows" -> C!RowsDrain(st, MaxR + 2)
                         [] Base(kind.t) = "col" -> C!ColDrain(st, MaxR + 2)
                         [] OTHER -> C!FlatDrain(st, MaxC * MaxR + 2)
              IN [i \in DOMAIN d |-> IF d[i] = C!Word THEN 0 ELSE IdAtOffset(d[i])]
BLen(st) == CASE Base(kind.t) = "rows" -> C!RowsLen(st) [] Base(kind.t) = "col" -> C!ColLen(st) [] OTHER -> C!FlatLen(st)
BRep(st) == CASE Base(kind.t) = "rows" -> C!RowsRep(st) [] Base(kind.t) = "col" -> C!ColRep(st) [] OTHER -> C!FlatRep(st)

BApply(op, n) ==
    CASE Base(kind.t) = "rows" -> (CASE op = "next" -> C!RowsNext(b) [] op = "next_back" -> C!RowsNextBack(b)
                                     [] op = "nth" -> C!RowsNth(b, n) [] op = "nth_back" -> C!RowsNthBack(b, n))
      [] Base(kind.t) = "col"  -> (CASE op = "next" -> C!ColNext(b) [] op = "next_back" -> C!ColNextBack(b)
                                     [] op = "nth" -> C!ColNth(b, n) [] op = "nth_back" -> C!ColNthBack(b, n)
                                     [] op = "index" -> C!ColIndex(b, n))
      [] OTHER                 -> (CASE op = "next" -> C!FlatNext(b) [] op = "next_back" -> C!FlatNextBack(b)
                                     [] op = "nth" -> C!FlatNth(b, n) [] op = "nth_back" -> C!FlatNthBack(b, n))

FinalRoot(ys2) == IF kind.t \in MutKinds THEN PutBack(root, stack, WrittenWindow(Wg, kind, ys2)) ELSE root
Case(cs, lo2, hi2, ys2) ==
    [fam |-> "iter", root |-> [kind |-> "owned", nc |-> NC(root), nr |-> NR(root), ids |-> Flat(root)],
     stack |-> stack, kind |-> kind, calls |-> cs, done |-> FALSE,
     remaining |-> CellsOfRange(Wg, kind, lo2 + 1, hi2), nremaining |-> hi2 - lo2, final_root |-> Flat(FinalRoot(ys2))]

Do(op, n) ==
    /\ (op = "index" => kind.t \in ColKinds)
    /\ LET a == [n |-> n]
           ra == IterApply(Wg, kind, lo, hi, op, a)
           rb == BApply(op, n)
           cs == Append(calls, [op |-> op, a |-> (IF op \in {"next", "next_back"} THEN [z |-> 0] ELSE a), x |-> [res |-> ra.res]])
           ys2 == ys \o ra.y
       IN \* the refinement obligations are asserted on EVERY transition (an invariant would only be evaluated on
          \* the first state TLC keeps per VIEW value)
          /\ Assert(SameResult(ra.res, rb.res), <<"B_SameResult", kind, b, op, n, ra.res, rb.res>>)
          /\ Assert(rb.inb, <<"B_InBounds", kind, b, op, n>>)
          /\ Assert(BDrainOf(rb.st) = IdealRemaining(ra.lo, ra.hi), <<"B_SameRemaining", kind, b, op, n>>)
          /\ Assert(BLen(rb.st) = ra.hi - ra.lo, <<"B_SameLen", kind, b, op, n>>)
          /\ Assert(BRep(rb.st), <<"B_Rep", kind, b, op, n>>)
          /\ b' = rb.st /\ lo' = ra.lo /\ hi' = ra.hi /\ calls' = cs /\ ys' = ys2
          /\ last' = [op |-> op, a |-> n, ra |-> ra.res, rb |-> rb.res, inb |-> rb.inb]
          /\ UNCHANGED <<root, stack, kind>>
          /\ (Emit /\ n <= EmitMaxN) => PrintT(<<"CASE", ToJson(Case(cs, ra.lo, ra.hi, ys2))>>)

Call == \/ \E op \in {"next", "next_back"} : Do(op, 0)
        \/ \E op \in {"nth", "nth_back", "index"}, n \in 0..(C!Word - 1) : Do(op, n)

Init == \E nc \in 0..MaxC, nr \in 0..MaxR, sk \in 0..MaxSkip, t \in CKinds :
          /\ (nc = 0 <=> nr = 0)
          /\ (nc = 0 => sk = 0)
          /\ root = MkRoot(<<nc + sk, nr>>)
          /\ stack = IF sk = 0 THEN << >> ELSE <<[k |-> "m", s |-> <<0, 0>>, e |-> <<nc, nr>>]>>
          /\ \E c \in (IF t \in ColKinds THEN 0..(nc - 1) ELSE {0}) :
               /\ kind = [t |-> t, c |-> c]
               /\ b = (CASE Base(t) = "rows" -> C!RowsInit(nc, nr, nc + sk)
                         [] Base(t) = "col" -> C!ColInit(c, nr, nc + sk)
                         [] OTHER -> C!FlatInit(nc, nr))
               /\ lo = 0 /\ hi = (IF Base(t) = "cells" THEN nc * nr ELSE nr)
          /\ calls = << >> /\ ys = << >> /\ last = NoLast

Spec == Init /\ [][Call]_vars
View == <<Dims(root), stack, kind, b>>

(* ---- refinement invariants: Layer B is a correct implementation of Layer A ---- *)
B_SameResult == SameResult(last.ra, last.rb)
B_SameRemaining == BDrainOf(b) = IdealRemaining(lo, hi)
B_SameLen == BLen(b) = hi - lo
B_Rep == BRep(b)
B_InBounds == last.inb
=============================================================================
