-------------------------------- MODULE Access --------------------------------
(***************************************************************************)
(* Layer A semantics of everything reached THROUGH a receiver: an owned    *)
(* array, a view or a mutable view, possibly nested (C02, C03, C04, C13,   *)
(* C14, C15, C16, C17).                                                    *)
(*                                                                         *)
(* root   : the grid of the underlying array (cells = unique element ids)  *)
(* stack  : sequence of window requests [k, s, e]; k = "v" (view) or "m"   *)
(*          (view_mut); s, e = start / end coordinate <<col,row>> RELATIVE *)
(*          to the enclosing receiver                                      *)
(* The receiver a call is made on is the window denoted by the whole       *)
(* stack.  A read denotes a root cell; a mutation op has the owned-array   *)
(* meaning Op (from Grid.tla) applied to the window's cells, written back  *)
(* with Embed - which IS the frame condition of C04.                       *)
(***************************************************************************)
EXTENDS Grid, TLC

Unit     == [k |-> "unit"]
Panic    == [k |-> "panic"]
Some(v)  == [k |-> "some", v |-> v]
Ids(s)   == [k |-> "ids", v |-> s]
GridRes(g) == [k |-> "grid", nc |-> NC(g), nr |-> NR(g), v |-> Flat(g)]

KeyOf(v) == v % 3
KeysOf(s) == [i \in DOMAIN s |-> KeyOf(s[i])]

(* ---- window stacks ---- *)
\* absolute start and size (in root coordinates) of the window a stack denotes
RECURSIVE AbsFrom(_, _, _, _)
AbsFrom(stack, i, start, size) ==
    IF i > Len(stack) THEN [s |-> start, z |-> size]
    ELSE LET w == stack[i]
             ext == <<w.e[1] - w.s[1], w.e[2] - w.s[2]>>
             z2  == IF ext[1] = 0 \/ ext[2] = 0 THEN <<0, 0>> ELSE ext
         IN AbsFrom(stack, i + 1, <<start[1] + w.s[1], start[2] + w.s[2]>>, z2)
Abs(root, stack) == AbsFrom(stack, 1, <<0, 0>>, Dims(root))
\* the cells the receiver sees
Recv(root, stack) == LET a == Abs(root, stack) IN
                     IF a.z[1] = 0 THEN << >> ELSE Window(root, a.s, <<a.s[1] + a.z[1], a.s[2] + a.z[2]>>)
\* write a (same-sized) grid back through the receiver
PutBack(root, stack, w) == IF w = << >> THEN root ELSE Embed(root, Abs(root, stack).s, w)
\* a window request on a receiver of size z is accepted iff start <= end <= size, componentwise
ReqOK(z, s, e) == /\ ~IsBig(s[1]) /\ ~IsBig(s[2]) /\ ~IsBig(e[1]) /\ ~IsBig(e[2])
                  /\ s[1] <= e[1] /\ s[2] <= e[2] /\ e[1] <= z[1] /\ e[2] <= z[2]
Mutable(stack) == \A i \in DOMAIN stack : stack[i].k = "m"

(***************************************************************************)
(* Calls.  Each returns [res, root].                                       *)
(***************************************************************************)
R(res, root) == [res |-> res, root |-> root]

\* "debug": the Debug rendering lists the rows; "as_view": From<TooDeeViewMut> for TooDeeView - both show the receiver's grid
ReadOps  == {"idx_coord", "idx_row", "col_idx", "get_unchecked", "get_unchecked_row", "row", "col", "size", "debug", "as_view"}
WriteOps == {"idxm_coord", "idxm_row", "colm_idx", "colm_idxm", "get_unchecked_mut", "get_unchecked_row_mut"}

ApplyRead(root, stack, op, a) ==
    LET w == Recv(root, stack) IN
    CASE op \in {"idx_coord", "idx_row", "col_idx", "get_unchecked"} ->
            IF a.c < NC(w) /\ a.r < NR(w) THEN R(Some(Cell(w, a.c, a.r)), root) ELSE R(Panic, root)
      [] op \in {"row", "get_unchecked_row"} -> IF a.r < NR(w) THEN R(Ids(RowOf(w, a.r)), root) ELSE R(Panic, root)
      [] op = "col"  -> IF a.c < NC(w) THEN R(Ids(ColOf(w, a.c)), root) ELSE R(Panic, root)
      [] op \in {"size", "debug", "as_view"} -> R(GridRes(w), root)

\* the mutable access forms: the harness writes a.v through the reference obtained
ApplyWrite(root, stack, op, a) ==
    LET w == Recv(root, stack) IN
    CASE op \in {"idxm_coord", "idxm_row", "colm_idxm", "get_unchecked_mut"} ->
            IF a.c < NC(w) /\ a.r < NR(w)
            THEN R(Some(Cell(w, a.c, a.r)), PutBack(root, stack, SetCell(w, a.c, a.r, a.v)))
            ELSE R(Panic, root)
      [] op = "colm_idx" ->          \* shared indexing of a mutable column: a read
            IF a.c < NC(w) /\ a.r < NR(w) THEN R(Some(Cell(w, a.c, a.r)), root) ELSE R(Panic, root)
      [] op = "get_unchecked_row_mut" ->  \* writes a.v into column a.c of the row obtained
            IF a.c < NC(w) /\ a.r < NR(w)
            THEN R(Ids(RowOf(w, a.r)), PutBack(root, stack, SetCell(w, a.c, a.r, a.v)))
            ELSE R(Panic, root)

(* ---- C03: a (further) window request, made on the receiver ---- *)
\* "view": the cells seen; "view_mut": cell i (row-major) of the new window is overwritten with a.v + i - 1
ApplyView(root, stack, op, a) ==
    LET z == Abs(root, stack).z IN
    IF ~ReqOK(z, a.s, a.e) THEN R(Panic, root)
    ELSE LET st2 == Append(stack, [k |-> IF op = "view" THEN "v" ELSE "m", s |-> a.s, e |-> a.e])
             w2  == Recv(root, st2)
         IN IF op = "view" THEN R(GridRes(w2), root)
            ELSE R(GridRes(w2),
                   PutBack(root, st2, FromFlat(NC(w2), NR(w2), [i \in 1..(NC(w2) * NR(w2)) |-> a.v + i - 1])))

(* ---- C13 / C04: primitives ---- *)
ApplyPrim(root, stack, op, a) ==
    LET w == Recv(root, stack)  c == NC(w)  r == NR(w) IN
    CASE op = "fill"      -> R(Unit, PutBack(root, stack, Fill(w, a.v)))
      [] op = "swap"      -> IF a.c1 < c /\ a.r1 < r /\ a.c2 < c /\ a.r2 < r
                             THEN R(Unit, PutBack(root, stack, SwapCells(w, <<a.c1, a.r1>>, <<a.c2, a.r2>>)))
                             ELSE R(Panic, root)
      [] op = "swap_rows" -> IF a.r1 < r /\ a.r2 < r THEN R(Unit, PutBack(root, stack, SwapRows(w, a.r1, a.r2)))
                             ELSE R(Panic, root)
      [] op = "swap_cols" -> IF a.c1 < c /\ a.c2 < c THEN R(Unit, PutBack(root, stack, SwapCols(w, a.c1, a.c2)))
                             ELSE R(Panic, root)
      \* row_pair_mut(r1, r2): the two rows in that order; the harness then swaps the contents of the
      \* two slices it got, so disjointness and write-through show up in the root
      [] op = "row_pair_swap" -> IF a.r1 < r /\ a.r2 < r /\ a.r1 # a.r2
                                 THEN R(Ids(RowOf(w, a.r1) \o RowOf(w, a.r2)), PutBack(root, stack, SwapRows(w, a.r1, a.r2)))
                                 ELSE R(Panic, root)
      \* iterate rows_mut / cells_mut / col_mut(c) (forwards, or backwards when a.rev) and overwrite the
      \* k-th cell visited with a.v + k - 1
      [] op = "write_rows_mut"  -> R(Unit, PutBack(root, stack,
                                      IF a.rev THEN FromFlat(c, r, [i \in 1..(c * r) |-> a.v + ((r - 1 - ((i - 1) \div c)) * c + ((i - 1) % c))])
                                               ELSE FromFlat(c, r, [i \in 1..(c * r) |-> a.v + i - 1])))
      [] op = "write_cells_mut" -> R(Unit, PutBack(root, stack,
                                      FromFlat(c, r, [i \in 1..(c * r) |-> IF a.rev THEN a.v + (c * r - i) ELSE a.v + i - 1])))
      [] op = "write_col_mut"   -> IF a.c < c
                                   THEN R(Unit, PutBack(root, stack,
                                            [y \in 1..r |-> [x \in 1..c |-> IF x = a.c + 1
                                                                           THEN (IF a.rev THEN a.v + (r - y) ELSE a.v + y - 1)
                                                                           ELSE w[y][x]]]))
                                   ELSE R(Panic, root)

(* ---- C14: copies.  a.src is a sequence of values (row-major) with a.snc, a.snr its dimensions ---- *)
ApplyCopy(root, stack, op, a) ==
    LET w == Recv(root, stack)  c == NC(w)  r == NR(w) IN
    CASE op \in {"copy_from_slice", "clone_from_slice"} ->
            IF Len(a.src) = c * r THEN R(Unit, PutBack(root, stack, FromFlat(c, r, a.src))) ELSE R(Panic, root)
      [] op \in {"copy_from_toodee", "clone_from_toodee"} ->
            IF a.snc = c /\ a.snr = r THEN R(Unit, PutBack(root, stack, FromFlat(c, r, a.src))) ELSE R(Panic, root)
      [] op = "copy_within" ->
            IF CopyWithinOK(w, a.tl, a.br, a.d)
            THEN R(Unit, PutBack(root, stack, IF w = << >> THEN w ELSE CopyWithin(w, a.tl, a.br, a.d)))
            ELSE R(Panic, root)

(* ---- C15 ---- *)
ApplyMove(root, stack, op, a) ==
    LET w == Recv(root, stack) IN
    CASE op = "translate" -> IF ~IsBig(a.mc) /\ ~IsBig(a.mr) /\ TranslateOK(w, <<a.mc, a.mr>>)
                             THEN R(Unit, PutBack(root, stack, IF w = << >> THEN w ELSE Translate(w, <<a.mc, a.mr>>)))
                             ELSE R(Panic, root)
      [] op = "flip_rows" -> R(Unit, PutBack(root, stack, FlipRows(w)))
      [] op = "flip_cols" -> R(Unit, PutBack(root, stack, FlipCols(w)))

(* ---- C16 / C17: a.by = "row" | "col", a.line = index, a.stable ---- *)
\* All results the property allows: one per admissible permutation.
SortPerms(keys, stable) == IF stable THEN {StablePerm(keys)}
                           ELSE {p \in [1..Len(keys) -> 1..Len(keys)] : IsSortingPerm(keys, p)}
SortResults(root, stack, a) ==
    LET w == Recv(root, stack) IN
    IF a.by = "row"
    THEN IF a.line < NR(w)
         THEN {PutBack(root, stack, ApplyColPerm(w, p)) : p \in SortPerms(KeysOf(RowOf(w, a.line)), a.stable)}
         ELSE {}
    ELSE IF a.line < NC(w)
         THEN {PutBack(root, stack, ApplyRowPerm(w, p)) : p \in SortPerms(KeysOf(ColOf(w, a.line)), a.stable)}
         ELSE {}
\* {} = the call must panic (and change nothing)

PrimOps == {"fill", "swap", "swap_rows", "swap_cols", "row_pair_swap", "write_rows_mut", "write_cells_mut", "write_col_mut"}
CopyOps == {"copy_from_slice", "clone_from_slice", "copy_from_toodee", "clone_from_toodee", "copy_within"}
MoveOps == {"translate", "flip_rows", "flip_cols"}
ViewOps == {"view", "view_mut"}

Apply(root, stack, op, a) ==
    IF op \in ReadOps THEN ApplyRead(root, stack, op, a)
    ELSE IF op \in WriteOps THEN ApplyWrite(root, stack, op, a)
    ELSE IF op \in ViewOps THEN ApplyView(root, stack, op, a)
    ELSE IF op \in PrimOps THEN ApplyPrim(root, stack, op, a)
    ELSE IF op \in CopyOps THEN ApplyCopy(root, stack, op, a)
    ELSE ApplyMove(root, stack, op, a)

(***************************************************************************)
(* Properties of the semantics itself (checked by TLC on every explored    *)
(* call): the frame condition and bijectivity, stated independently of     *)
(* Embed.                                                                  *)
(***************************************************************************)
InsideAbs(root, stack, x, y) == LET a == Abs(root, stack) IN
    a.z[1] > 0 /\ x > a.s[1] /\ x <= a.s[1] + a.z[1] /\ y > a.s[2] /\ y <= a.s[2] + a.z[2]
FrameOK(root, stack, root2) ==
    /\ Dims(root2) = Dims(root)
    /\ \A y \in 1..NR(root), x \in 1..NC(root) : ~InsideAbs(root, stack, x, y) => root2[y][x] = root[y][x]
IsRearrangement(root, root2) == SameBag(Flat(root), Flat(root2))
=============================================================================
