------------------------------- MODULE TooDeeTrace -------------------------------
(***************************************************************************)
(* code -> spec: validates a trace recorded from the REAL crate (by the    *)
(* conformance harness: replay of fault cases, or the random driver)       *)
(* against the Layer A history machine.                                    *)
(*                                                                         *)
(* One trace line = one public call that returned (or panicked and was     *)
(* caught), with its arguments, its result, the full projection of the     *)
(* array afterwards and the ownership ledger.  Ordinary calls must be      *)
(* explained by Apply (TooDee.tla) exactly; calls during which caller code *)
(* panicked, lied, or whose drain was leaked are judged by the relation    *)
(* PostFaultOK (C11 / C12) and the logged state is adopted, so that the    *)
(* REST of the history is checked from what the code really left behind.   *)
(*                                                                         *)
(* Every event is deterministic, so TLC follows a single path; the first   *)
(* event the specification cannot explain leaves no successor and TLC      *)
(* reports a deadlock whose last state shows the offending line `l`.       *)
(***************************************************************************)
EXTENDS TooDee, Json, IOUtils

Rec == ndJsonDeserialize(IOEnv.TRACE)

VARIABLES l, phase, grid, handle, held, faulted
vars == <<l, phase, grid, handle, held, faulted>>

St == [phase |-> phase, grid |-> grid, handle |-> handle, held |-> held]

Init == /\ l = 1 /\ phase = "none" /\ grid = << >> /\ handle = NoHandle /\ held = << >> /\ faulted = FALSE

SubBag(s, t) == \A v \in Range(s) : CountIn(s, v) <= CountIn(t, v)
ExpectedLive(r) == Flat(r.grid) \o (IF r.handle.kind = "none" THEN << >> ELSE Remaining(r.handle)) \o r.held

ResMatch(e, res) == IF e.valued THEN e.res = res
                    ELSE /\ e.res.k = res.k
                         /\ (res.k \in {"val", "drain"} => e.res.v = res.v)
                         /\ (res.k = "ids" => Len(e.res.v) = Len(res.v))
ProjMatch(e, r) == /\ e.post.obs /\ e.post.ok
                   /\ e.post.nc = NC(r.grid) /\ e.post.nr = NR(r.grid) /\ e.post.len = NC(r.grid) * NR(r.grid)
                   /\ e.post.dup = 0 /\ e.post.dead = 0
                   /\ (e.valued => e.post.data = Flat(r.grid))
\* C05: the conservation law, evaluated on the logged ledger
LedgerOK(e, r) == /\ e.dd = 0
                  /\ e.tracked => IF faulted THEN SubBagFast(ExpectedLive(r), e.live) ELSE SameBagFast(e.live, ExpectedLive(r))

Adopt(r) == /\ phase' = r.phase /\ grid' = r.grid /\ handle' = r.handle /\ held' = r.held

\* ---- an ordinary call ----
Ordinary(e) == /\ Enabled(St, e.ev)
               /\ LET r == Apply(St, e.ev, e.a) IN
                  /\ ResMatch(e, r.res)
                  /\ (Observable(r) => ProjMatch(e, r))
                  /\ (e.valued => e.held = r.held)
                  /\ LedgerOK(e, r)
                  /\ Adopt(r)
               /\ UNCHANGED faulted

\* ---- a call with a fault (C11) or a leak (C12) ----
\* cells the array may hold afterwards: what it held (incl. an outstanding drain's line) or what the call supplied
Before == Flat(grid) \o (IF handle.kind = "none" THEN << >> ELSE handle.items)
Faulty(e) == /\ Enabled(St, e.ev) \/ e.ev = "d_forget"
             /\ e.dd = 0
             /\ e.post.obs => /\ e.post.ok
                              /\ PostFaultOKv(Before, e.supplied, e.post, e.valued)
             /\ IF e.post.obs
                THEN /\ phase' = "live"
                     /\ grid' = FromFlat(e.post.nc, e.post.nr, IF e.valued THEN e.post.data ELSE [i \in 1..e.post.len |-> 0])
                ELSE /\ phase' = (IF phase = "none" THEN "none" ELSE "gone") /\ grid' = << >>
             /\ handle' = NoHandle
             \* what the caller holds: what it held, plus (a fold closure that panicked midway) items of the drained line
             /\ IF e.valued
                THEN /\ Len(e.held) >= Len(held) /\ SubSeq(e.held, 1, Len(held)) = held
                     /\ \A i \in (Len(held) + 1)..Len(e.held) : e.held[i] \in Range(Before)
                     /\ held' = e.held
                ELSE held' = held
             /\ faulted' = TRUE

Step == /\ l <= Len(Rec)
        /\ LET e == Rec[l] IN
           CASE e.ev = "reset" -> /\ phase' = "none" /\ grid' = << >> /\ handle' = NoHandle /\ held' = << >> /\ faulted' = FALSE
             [] e.ev = "end"   -> /\ e.dd = 0 /\ e.redzone_ok
                                  /\ (e.tracked /\ ~faulted) => e.live = << >>      \* nothing left undropped
                                  /\ UNCHANGED <<phase, grid, handle, held, faulted>>
             [] OTHER          -> IF e.fault.kind = "none" \/ (e.fault.kind = "panic_at" /\ ~e.fired /\ e.res.k # "panic")
                                  THEN Ordinary(e) ELSE Faulty(e)
        /\ l' = l + 1

Done == l > Len(Rec) /\ UNCHANGED vars

Next == Step \/ Done
Spec == Init /\ [][Next]_vars

(* ---- invariants evaluated in every state of the trace ---- *)
ShapeOK == IsGrid(grid) /\ (NC(grid) = 0 <=> NR(grid) = 0)
HandleOK == handle.kind # "none" => handle.f + handle.b <= Len(handle.items)
=============================================================================
