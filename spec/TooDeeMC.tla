------------------------------- MODULE TooDeeMC -------------------------------
(***************************************************************************)
(* Model-checking wrapper of the history machine: draws every call and     *)
(* every argument value inside small bounds, checks the Layer A            *)
(* invariants in every state, and (Emit = TRUE) prints every transition    *)
(* it explores as a replayable case: the shortest real history reaching    *)
(* the source state followed by the call, each step with the result and    *)
(* the full projection the implementation must show.                       *)
(***************************************************************************)
EXTENDS TooDee, Json

CONSTANTS MaxC, MaxR,      \* shapes explored: 0..MaxC x 0..MaxR
          Emit,            \* print CASE lines
          Walk,            \* TRUE: random-walk mode (tlc -simulate), cases printed at depth WalkLen
          WalkLen,
          EmitOps,         \* only transitions whose call is in this set are printed ({} = all)
          Faults           \* subset of {"iter", "clone", "default", "drop", "closure", "cmp", "forget"}: fault transitions explored

VARIABLES phase, grid, handle, held, nextId, hist
vars == <<phase, grid, handle, held, nextId, hist>>

St == [phase |-> phase, grid |-> grid, handle |-> handle, held |-> held]
Fresh(n) == [i \in 1..n |-> nextId + i - 1]
NoArg == [z |-> 0]

Expect(r) == IF Observable(r)
             THEN [res |-> r.res, obs |-> TRUE, nc |-> NC(r.grid), nr |-> NR(r.grid), data |-> Flat(r.grid),
                   held |-> r.held]
             ELSE [res |-> r.res, obs |-> FALSE, nc |-> 0, nr |-> 0, data |-> << >>, held |-> r.held]

Do(op, a, nfresh) ==
    /\ Enabled(St, op)
    /\ LET r == Apply(St, op, a) IN
       /\ phase' = r.phase /\ grid' = r.grid /\ handle' = r.handle /\ held' = r.held
       /\ nextId' = nextId + nfresh
       /\ hist' = Append(hist, [op |-> op, a |-> a, x |-> Expect(r)])
       /\ (Emit /\ ~Walk /\ (EmitOps = {} \/ op \in EmitOps)) => PrintT(<<"CASE", ToJson([fam |-> "hist", steps |-> hist'])>>)

C == NC(grid)
R == NR(grid)
Cells == C * R
Small(n) == 0..(n + 1)
Idx(n)   == Small(n) \cup {BigMAX, BigWRAP}
Edge(n)  == {0, n} \cup (IF n > 0 THEN {n - 1} ELSE {})           \* first, last, one past

(* ---- constructors ---- *)
CDefault      == Do("default", NoArg, 0)
CWithCapacity == \E k \in {0, 7} : Do("with_capacity", [k |-> k], 0)
CNew          == \E nc \in 0..MaxC, nr \in 0..MaxR : Do("new", [nc |-> nc, nr |-> nr], 0)
CInit         == \E nc \in 0..MaxC, nr \in 0..MaxR : Do("init", [nc |-> nc, nr |-> nr, v |-> nextId], 1)
CFromVec      == \E nc \in 0..MaxC, nr \in 0..MaxR, op \in {"from_vec", "from_box"} :
                   \E n \in {nc * nr, nc * nr + 1} \cup (IF nc * nr > 0 THEN {nc * nr - 1} ELSE {}) :
                     Do(op, [nc |-> nc, nr |-> nr, items |-> Fresh(n)], n)

(* ---- structural edits ---- *)
AInsertRow == \E i \in Idx(R), n \in (IF grid = << >> THEN 0..MaxC ELSE Small(C)) :
                 Do("insert_row", [index |-> i, items |-> Fresh(n)], n)
APushRow   == \E n \in (IF grid = << >> THEN 0..MaxC ELSE Small(C)) : Do("push_row", [items |-> Fresh(n)], n)
AInsertCol == \E i \in Idx(C), n \in (IF grid = << >> THEN 0..MaxR ELSE Small(R)) :
                 Do("insert_col", [index |-> i, items |-> Fresh(n)], n)
APushCol   == \E n \in (IF grid = << >> THEN 0..MaxR ELSE Small(R)) : Do("push_col", [items |-> Fresh(n)], n)
ARemoveRow == \E i \in Idx(R) : Do("remove_row", [index |-> i], 0)
APopRow    == Do("pop_row", NoArg, 0)
ARemoveCol == \E i \in Idx(C) : Do("remove_col", [index |-> i], 0)
APopCol    == Do("pop_col", NoArg, 0)
ADrain     == \/ \E op \in DrainOps \ {"d_nth", "d_nth_back", "d_find"} : Do(op, NoArg, 0)
              \/ /\ handle.kind # "none"
                 /\ \E op \in {"d_nth", "d_nth_back", "d_find"} :
                      \E k \in Small(Len(handle.items) - handle.f - handle.b) \cup {1000} : Do(op, [n |-> k], 0)

(* ---- whole-array calls ---- *)
AClear     == Do("clear", NoArg, 0)
ASwapDims  == Do("swap_dimensions", NoArg, 0)
ACapacity  == \E op \in {"reserve", "reserve_exact"}, k \in {0, 1, 9} : Do(op, [k |-> k], 0)
AShrink    == Do("shrink_to_fit", NoArg, 0)
AFill      == Do("fill", [v |-> nextId], 1)
ASet       == \E c \in Edge(C) \cup {BigMAX}, r \in Edge(R) \cup {BigMAX} : Do("set", [c |-> c, r |-> r, v |-> nextId], 1)
ASetFlat   == \E i \in Edge(Cells) \cup {BigMAX}, via \in {0, 1} : Do("set_flat", [i |-> i, via |-> via, v |-> nextId], 1)
ASwap      == \E c1 \in Edge(C), r1 \in Edge(R), c2 \in Edge(C), r2 \in Edge(R) :
                 Do("swap", [c1 |-> c1, r1 |-> r1, c2 |-> c2, r2 |-> r2], 0)
ASwapRows  == \E r1 \in Edge(R) \cup {BigMAX}, r2 \in Edge(R) \cup {BigMAX} : Do("swap_rows", [r1 |-> r1, r2 |-> r2], 0)
ASwapCols  == \E c1 \in Edge(C) \cup {BigMAX}, c2 \in Edge(C) \cup {BigMAX} : Do("swap_cols", [c1 |-> c1, c2 |-> c2], 0)
ATranslate == \E mc \in Small(C), mr \in Small(R) : Do("translate", [mc |-> mc, mr |-> mr], 0)
AFlip      == \E op \in {"flip_rows", "flip_cols"} : Do(op, NoArg, 0)
ASortRow   == \E r \in Idx(R) : Do("sort_by_row", [row |-> r], 0)
ASortCol   == \E c \in Idx(C) : Do("sort_by_col", [col |-> c], 0)
ASortForms == \/ \E r \in Edge(R), op \in {"sort_by_row_key", "sort_row_ord"} : Do(op, [row |-> r], 0)
              \/ \E c \in Edge(C), op \in {"sort_by_col_key", "sort_col_ord"} : Do(op, [col |-> c], 0)
ACloneInto == \/ \E n \in {Cells, Cells + 1} : Do("clone_from_slice", [items |-> Fresh(n)], n)
              \/ \E snc \in {C, C + 1}, snr \in {R} : (snc = 0 <=> snr = 0) /\
                    Do("clone_from_toodee", [nc |-> snc, nr |-> snr, items |-> Fresh(snc * snr)], snc * snr)
AClone     == Do("clone", NoArg, 0)
ACloneFrom == \E snc \in 0..MaxC, snr \in 0..MaxR : (snc = 0 <=> snr = 0) /\
                 Do("clone_from", [nc |-> snc, nr |-> snr, items |-> Fresh(snc * snr)], snc * snr)
\* m = 0: From<TooDeeView> for TooDee, m = 1: From<TooDeeViewMut> for TooDee - one meaning
AFromView  == \E sc \in Edge(C), sr \in Edge(R), ec \in Edge(C), er \in Edge(R), m \in {0, 1} :
                 sc <= ec /\ sr <= er /\ ec <= C /\ er <= R /\
                 Do("from_view", [s |-> <<sc, sr>>, e |-> <<ec, er>>, m |-> m], 0)
AConsume   == \E op \in {"into_vec", "into_box", "into_iter", "drop"} : Do(op, NoArg, 0)

(***************************************************************************)
(* Fault transitions (C11, C12).  Layer A does not determine the state     *)
(* after a caught panic in caller code or after a leaked drain - it only   *)
(* constrains it (PostFaultOK in TooDee.tla) - so the behaviour ends in    *)
(* the terminal phase "faulted"; the emitted case carries what the         *)
(* relation needs (cells before, values supplied) and the conformance      *)
(* harness records what the real code left behind, which TLC then judges   *)
(* in TooDeeTrace.tla together with the rest of the history.               *)
(***************************************************************************)
DoFault(op, a, fault, supplied, nfresh) ==
    /\ Enabled(St, op)
    /\ phase' = "faulted" /\ grid' = << >> /\ handle' = NoHandle /\ held' = held
    /\ nextId' = nextId + nfresh
    /\ hist' = Append(hist, [op |-> op, a |-> a, fault |-> fault, pre |-> Flat(grid), supplied |-> supplied,
                            x |-> [res |-> Unit, obs |-> FALSE, nc |-> 0, nr |-> 0, data |-> << >>, held |-> held]])
    /\ Emit => PrintT(<<"CASE", ToJson([fam |-> "hist", steps |-> hist'])>>)

PanicAt(site, k) == [kind |-> "panic_at", site |-> site, k |-> k, lie |-> "none"]
Lie(how)         == [kind |-> "lie", site |-> "none", k |-> 0, lie |-> how]
Forget           == [kind |-> "forget", site |-> "none", k |-> 0, lie |-> "none"]

\* caller-supplied element iterators: the k-th next()/next_back()/len() panics, or len() lies - by a constant amount, or
\* ("flip") honestly on the first call and differently on later ones although nothing was consumed in between
FIter == /\ "iter" \in Faults
         /\ \/ \E op \in {"insert_row", "push_row"}, i \in Edge(R) :
                 LET n == IF grid = << >> THEN 2 ELSE C
                     a == IF op = "insert_row" THEN [index |-> Min2(i, R), items |-> Fresh(n)] ELSE [items |-> Fresh(n)] IN
                 \/ \E k \in 0..n : DoFault(op, a, PanicAt("next", k), Fresh(n), n)
                 \/ DoFault(op, a, PanicAt("iter_drop", 0), Fresh(n), n)          \* the iterator's own destructor panics
                 \/ \E k \in 0..1 : DoFault(op, a, PanicAt("len", k), Fresh(n), n)
                 \/ \E how \in {"minus1", "plus1", "max", "flip_down", "flip_up"} : DoFault(op, a, Lie(how), Fresh(n), n)
                 \* the announced length is the expected one, but one item more ("minus1" over n + 1 items) or fewer is yielded
                 \/ DoFault(op, [a EXCEPT !.items = Fresh(n + 1)], Lie("minus1"), Fresh(n + 1), n + 1)
                 \/ n > 1 /\ DoFault(op, [a EXCEPT !.items = Fresh(n - 1)], Lie("plus1"), Fresh(n - 1), n - 1)
            \/ \E op \in {"insert_col", "push_col"}, i \in Edge(C) :
                 LET n == IF grid = << >> THEN 2 ELSE R
                     a == IF op = "insert_col" THEN [index |-> Min2(i, C), items |-> Fresh(n)] ELSE [items |-> Fresh(n)] IN
                 \/ \E k \in 0..n : DoFault(op, a, PanicAt("next_back", k), Fresh(n), n)
                 \/ DoFault(op, a, PanicAt("iter_drop", 0), Fresh(n), n)
                 \/ \E k \in 0..1 : DoFault(op, a, PanicAt("len", k), Fresh(n), n)
                 \/ \E how \in {"minus1", "plus1", "max", "flip_down", "flip_up"} : DoFault(op, a, Lie(how), Fresh(n), n)
                 \/ DoFault(op, [a EXCEPT !.items = Fresh(n + 1)], Lie("minus1"), Fresh(n + 1), n + 1)
                 \/ n > 1 /\ DoFault(op, [a EXCEPT !.items = Fresh(n - 1)], Lie("plus1"), Fresh(n - 1), n - 1)
\* Clone panics at its k-th call
FClone == /\ "clone" \in Faults
          /\ \/ \E k \in 0..Cells : DoFault("fill", [v |-> nextId], PanicAt("clone", k), <<nextId>>, 1)
             \/ \E k \in 0..Cells : DoFault("clone", NoArg, PanicAt("clone", k), << >>, 0)
             \/ \E k \in 0..Cells : \E m \in {0, 1} : DoFault("from_view", [s |-> <<0, 0>>, e |-> <<C, R>>, m |-> m], PanicAt("clone", k), << >>, 0)
             \/ \E snc \in 0..MaxC, snr \in 0..MaxR : (snc = 0 <=> snr = 0) /\ \E k \in 0..(snc * snr), site \in {"clone", "drop"} :
                   DoFault("clone_from", [nc |-> snc, nr |-> snr, items |-> Fresh(snc * snr)], PanicAt(site, k), Fresh(snc * snr), snc * snr)
             \/ \E nc \in 1..MaxC, nr \in 1..MaxR : \E k \in 0..(nc * nr) :
                   DoFault("init", [nc |-> nc, nr |-> nr, v |-> nextId], PanicAt("clone", k), <<nextId>>, 1)
FCloneInto == /\ "clone" \in Faults
              /\ \/ \E k \in 0..Cells, site \in {"clone", "drop"} : DoFault("clone_from_slice", [items |-> Fresh(Cells)], PanicAt(site, k), Fresh(Cells), Cells)
                 \/ \E k \in 0..Cells, site \in {"clone", "drop"} :
                       DoFault("clone_from_toodee", [nc |-> C, nr |-> R, items |-> Fresh(Cells)], PanicAt(site, k), Fresh(Cells), Cells)
FKey == /\ "cmp" \in Faults
        /\ \/ \E r \in 0..(R - 1), k \in 0..(2 * C), op \in {"sort_by_row_key", "sort_row_ord"} :
                DoFault(op, [row |-> r], PanicAt(IF op = "sort_by_row_key" THEN "key" ELSE "cmp", k), << >>, 0)
           \/ \E c \in 0..(C - 1), k \in 0..(2 * R), op \in {"sort_by_col_key", "sort_col_ord"} :
                DoFault(op, [col |-> c], PanicAt(IF op = "sort_by_col_key" THEN "key" ELSE "cmp", k), << >>, 0)
FDefault == /\ "default" \in Faults
            /\ \E nc \in 1..MaxC, nr \in 1..MaxR : \E k \in 0..(nc * nr) : DoFault("new", [nc |-> nc, nr |-> nr], PanicAt("default", k), << >>, 0)
\* an element destructor panics at its k-th call
FDrop == /\ "drop" \in Faults
         /\ \/ \E op \in {"clear", "drop"}, k \in 0..Cells : DoFault(op, NoArg, PanicAt("drop", k), << >>, 0)
            \/ \E k \in 0..Cells : DoFault("fill", [v |-> nextId], PanicAt("drop", k), <<nextId>>, 1)
            \/ Cells > 0 /\ DoFault("set", [c |-> 0, r |-> 0, v |-> nextId], PanicAt("drop", 0), <<nextId>>, 1)
            \/ handle.kind # "none" /\ \E k \in 0..(Len(handle.items) - handle.f - handle.b) : DoFault("d_drop", NoArg, PanicAt("drop", k), << >>, 0)
\* the closure given to fold / rfold on a drain panics at its k-th call (the drain has been moved into the call)
FClosure == /\ "closure" \in Faults /\ handle.kind # "none"
            /\ \E op \in {"d_fold", "d_rfold", "d_for_each"}, k \in 0..(Len(handle.items) - handle.f - handle.b) :
                  DoFault(op, NoArg, PanicAt("closure", k), << >>, 0)
\* the comparator panics at its k-th call
FCmp == /\ "cmp" \in Faults
        /\ \/ \E r \in 0..(R - 1), k \in 0..(2 * C) : DoFault("sort_by_row", [row |-> r], PanicAt("cmp", k), << >>, 0)
           \/ \E c \in 0..(C - 1), k \in 0..(2 * R) : DoFault("sort_by_col", [col |-> c], PanicAt("cmp", k), << >>, 0)
\* C12: the outstanding drain / by-value iterator is leaked at its current stage of consumption
FForget == /\ "forget" \in Faults /\ handle.kind # "none"
           /\ DoFault("d_forget", NoArg, Forget, << >>, 0)
\* C12: iterators and views without destructors, leaked after taking some items (array unchanged)
ALeakBorrow == /\ "forget" \in Faults
               /\ \E what \in {"rows", "rows_mut", "col", "col_mut", "cells", "cells_mut", "view", "view_mut"}, taken \in {0, 1, 2} :
                    Do("leak_borrow", [what |-> what, taken |-> taken], 0)

FaultNext == FIter \/ FClone \/ FCloneInto \/ FKey \/ FDefault \/ FDrop \/ FClosure \/ FCmp \/ FForget \/ ALeakBorrow

Init == /\ phase = "none" /\ grid = << >> /\ handle = NoHandle /\ held = << >>
        /\ nextId = 1 /\ hist = << >>

Next == \/ CFromVec \/ CInit \/ CNew \/ CDefault \/ CWithCapacity
        \/ AInsertRow \/ APushRow \/ AInsertCol \/ APushCol
        \/ ARemoveRow \/ APopRow \/ ARemoveCol \/ APopCol \/ ADrain
        \/ AClear \/ ASwapDims \/ ACapacity \/ AShrink \/ AFill \/ ASet \/ ASetFlat \/ ASwap \/ ASwapRows \/ ASwapCols
        \/ ATranslate \/ AFlip \/ ASortRow \/ ASortCol \/ AClone \/ ACloneFrom \/ ACloneInto \/ ASortForms \/ AFromView \/ AConsume
        \/ FaultNext

Spec == Init /\ [][Next]_vars

(* ---- bounds ---- *)
Bounded == NC(grid) <= MaxC /\ NR(grid) <= MaxR

HandleView == IF handle.kind = "none" THEN <<"none">>
              ELSE <<handle.kind, IF handle.kind = "drain" THEN <<handle.line, handle.idx>> ELSE <<"-", 0>>,
                     Len(handle.items), handle.f, handle.b>>
View == <<phase, Dims(grid), NoDup(Flat(grid)), HandleView>>

(* ---- Layer A invariants (C01, C05, C07) ---- *)
ShapeOK == IsGrid(grid) /\ Len(Flat(grid)) = NC(grid) * NR(grid) /\ (NC(grid) = 0 <=> NR(grid) = 0)
HandleOK == handle.kind # "none" => handle.f + handle.b <= Len(handle.items)
GoneIsEmpty == phase = "gone" => grid = << >>

WalkEmit == (Walk /\ Emit /\ Len(hist) = WalkLen) => PrintT(<<"CASE", ToJson([fam |-> "hist", steps |-> hist])>>)
=============================================================================
