------------------------------- MODULE AddrMC -------------------------------
EXTENDS Addr
CONSTANTS MaxDim, MaxSkip
VARIABLE q
Geoms == {g \in [nc : 0..MaxDim, nr : 0..MaxDim, sk : 0..MaxSkip] : (g.nc = 0 <=> g.nr = 0)}
Stride(g) == g.nc + g.sk
LenOf(g) == IF g.nr = 0 THEN 0 ELSE (g.nr - 1) * Stride(g) + g.nc
Args == 0..(Word - 1)
Small == 0..(MaxDim + 1)

Init == \/ \E g \in Geoms, c \in Args, r \in Args : q = [op |-> "coord", g |-> g, c |-> c, r |-> r]
        \/ \E g \in Geoms, r \in Args : q = [op |-> "row", g |-> g, c |-> 0, r |-> r]
        \/ \E g \in Geoms, c \in Args : q = [op |-> "col", g |-> g, c |-> c, r |-> 0]
        \/ \E g \in Geoms, c \in 0..MaxDim, i \in Args : c < g.nc /\ q = [op |-> "colidx", g |-> g, c |-> c, r |-> i]
        \/ \E g \in Geoms, sc \in Small \cup {Word - 1}, sr \in Small \cup {Word - 1}, ec \in Small \cup {Word - 1}, er \in Small \cup {Word - 1} :
              q = [op |-> "view", g |-> g, c |-> sc, r |-> sr, ec |-> ec, er |-> er]
Spec == Init /\ [][UNCHANGED q]_q

G == q.g
S == Stride(G)
L == LenOf(G)
\* Layer B (both receivers where they differ) equals Layer A, and every unchecked access is in bounds
Refines ==
    /\ RecvOK(G.nc, G.nr, S, L)
    /\ CASE q.op = "coord" -> LET b == IndexCoordB(G.nc, G.nr, S, L, q.c, q.r)  a == IndexCoordA(G.nc, G.nr, S, q.c, q.r) IN
                                b.inb /\ b.k = a.k /\ (a.k = "ok" => b.v = a.v)
         [] q.op = "row"   -> LET b == IndexRowB(G.nc, G.nr, S, L, q.r)  a == IndexRowA(G.nc, G.nr, S, q.r) IN
                                b.inb /\ b.k = a.k /\ (a.k = "ok" => b.v = a.v /\ b.n = G.nc)
         [] q.op = "col"   -> LET b == ColViewB(G.nc, G.nr, S, L, q.c)  a == ColA(G.nc, q.c)
                                  o == ColOwnedB(G.nc, G.nr, G.nc * G.nr, q.c) IN
                                /\ b.inb /\ b.k = a.k /\ (a.k = "ok" => b.v = a.v /\ b.n = (IF G.nr = 0 THEN 0 ELSE (G.nr - 1) * S + 1))
                                /\ (G.sk = 0 => o.inb /\ o.k = a.k /\ (a.k = "ok" => o.v = a.v /\ o.n = b.n))
         [] q.op = "colidx" -> LET collen == IF G.nr = 0 THEN 0 ELSE (G.nr - 1) * S + 1
                                   b == ColIndexB(collen, S - 1, q.r) IN
                                IF q.r < G.nr THEN b.k = "ok" /\ b.v = q.r * S ELSE b.k = "panic"
         [] q.op = "view"  -> LET b == ViewB(G.nc, G.nr, S, L, q.c, q.r, q.ec, q.er)  a == ViewA(G.nc, G.nr, S, q.c, q.r, q.ec, q.er) IN
                                b.inb /\ b.k = a.k /\ (a.k = "ok" => b.nc = a.nc /\ b.nr = a.nr /\ (a.nr > 0 => b.v = a.v /\ b.n = (a.nr - 1) * S + a.nc))
=============================================================================
