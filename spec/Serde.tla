-------------------------------- MODULE Serde --------------------------------
(***************************************************************************)
(* C18 / C19: the protocol between toodee's Serialize / Deserialize and a  *)
(* self-describing data format.                                            *)
(*                                                                         *)
(* A document is abstract: a top-level class and, for objects, a SEQUENCE  *)
(* of (key, value) fields - so every subset, order and duplication of the  *)
(* three fields plus unknown ones is a document.  Values are tokens:       *)
(*   dimension tokens: naturals 0..3 stand for themselves, the others are  *)
(*     P32 2^32, P63 2^63, MAXU 2^64-1, P64 2^64 (not a u64),              *)
(*     NEG -1, FRAC 1.5, STR a string, NUL null                            *)
(*   data tokens: [t |-> "arr", n |-> length, bad |-> index of an          *)
(*     ill-typed element or 0] or [t |-> "notarr"]                         *)
(* The textual encoding itself belongs to serde_json (trusted).            *)
(***************************************************************************)
EXTENDS Grid, TLC

Keys == {"num_cols", "num_rows", "data", "extra"}
SmallDims == 0..999                                 \* dimensions that stand for themselves
\* (TLC cannot compare strings with integers, so the symbolic tokens are integer codes)
P32 == 1001  P63 == 1002  MAXU == 1003                  \* 2^32, 2^63, 2^64-1
P64 == 2001  NEG == 2002  FRAC == 2003  STR == 2004  NUL == 2005   \* 2^64, -1, 1.5, "2", null
HugeDims  == {P32, P63, MAXU}                         \* valid u64/usize values, far beyond any data length
BadDims   == {P64, NEG, FRAC, STR, NUL}               \* not a usize at all
Unset == 9999
DimTokens == SmallDims \cup HugeDims \cup BadDims

Arr(n, bad) == [t |-> "arr", n |-> n, bad |-> bad]
NotArr == [t |-> "notarr"]

Err == [k |-> "err"]
Ok(nc, nr, n) == [k |-> "ok", nc |-> nc, nr |-> nr, n |-> n]   \* cells are 1..n in the order stated

Count(doc, key) == Cardinality({i \in DOMAIN doc.fields : doc.fields[i].key = key})
ValsOf(doc, key) == {doc.fields[i].val : i \in {j \in DOMAIN doc.fields : doc.fields[j].key = key}}
TheVal(doc, key) == CHOOSE v \in ValsOf(doc, key) : TRUE

IsUsize(tok) == tok \in SmallDims \cup HugeDims
WellTyped(d) == d.t = "arr" /\ d.bad = 0

(***************************************************************************)
(* Layer A: which documents may be accepted, and as what.                  *)
(***************************************************************************)
Accept(doc) ==
    /\ doc.top = "object"
    /\ Count(doc, "num_cols") = 1 /\ Count(doc, "num_rows") = 1 /\ Count(doc, "data") >= 1
    /\ Count(doc, "extra") = 0
    /\ LET nc == TheVal(doc, "num_cols")  nr == TheVal(doc, "num_rows") IN
       /\ nc \in SmallDims /\ nr \in SmallDims        \* huge dimensions overflow or exceed every data length
       /\ (nc = 0 <=> nr = 0)
       /\ \A d \in ValsOf(doc, "data") : WellTyped(d) /\ d.n = nc * nr
\* every stated data array then has the same length; with our tokens equal length = equal array
MustReject(doc) == ~Accept(doc)
\* duplicates of `data` that all agree: an error is always fine, acceptance is tolerated
MayReject(doc) == Accept(doc) /\ Count(doc, "data") > 1
\* Documents that are not maps (a sequence, a scalar).  The library asks its format for a map; a data format or a later
\* version may also offer a positional form [data, num_rows, num_cols].  Layer A does not fix how such a document reads:
\* it demands what C19 states - no panic, and whatever is accepted has consistent dimensions.
MayAcceptConsistent(doc) == doc.top # "object"
ConsistentResult(r) == r.k = "ok" => (r.nc * r.nr = r.n /\ (r.nc = 0 <=> r.nr = 0))
Expected(doc) == IF Accept(doc)
                 THEN LET nc == TheVal(doc, "num_cols")  nr == TheVal(doc, "num_rows") IN Ok(nc, nr, nc * nr)
                 ELSE Err

(***************************************************************************)
(* Entry points.  A document reaches the library through Deserialize::     *)
(* deserialize (from_str / from_slice / from_reader / from_value) or       *)
(* through Deserialize::deserialize_in_place (what a container calls when  *)
(* it reloads its elements), which is handed a destination that already    *)
(* holds some array `prior`.  The meaning of a document does not depend on *)
(* the entry point or on the destination:                                  *)
(***************************************************************************)
\* A third kind of entry point is the data format itself: a length-prefixed format announces the length of `data` before
\* its elements (SeqAccess::size_hint).  The announced length is not part of the abstract document - only the elements that
\* follow are - so it cannot change the meaning either (and a huge announced length must not make the library allocate).
InPlaceResult(prior, doc) == Expected(doc)                 \* on success the destination IS the array the document states
InPlaceAfterError(place) == place.nc * place.nr = place.n /\ (place.nc = 0 <=> place.nr = 0)   \* on failure: any valid array

(***************************************************************************)
(* Layer B: the visitor as the code has it (serde.rs): a left-to-right     *)
(* fold over the fields with three optional slots, duplicate checks on     *)
(* all three keys, typed value extraction, then the product / length /     *)
(* zero-rule checks before the asserting constructor is called.            *)
(***************************************************************************)
Slots0 == [nc |-> Unset, nr |-> Unset, data |-> Arr(0, 0), hasData |-> FALSE, failed |-> FALSE]
VisitField(s, f) ==
    IF s.failed THEN s
    ELSE CASE f.key = "num_cols" -> IF s.nc # Unset \/ ~IsUsize(f.val) THEN [s EXCEPT !.failed = TRUE] ELSE [s EXCEPT !.nc = f.val]
           [] f.key = "num_rows" -> IF s.nr # Unset \/ ~IsUsize(f.val) THEN [s EXCEPT !.failed = TRUE] ELSE [s EXCEPT !.nr = f.val]
           [] f.key = "data"     -> IF s.hasData \/ ~WellTyped(f.val) THEN [s EXCEPT !.failed = TRUE] ELSE [s EXCEPT !.data = f.val, !.hasData = TRUE]
           [] OTHER              -> [s EXCEPT !.failed = TRUE]              \* unknown field
RECURSIVE VisitFrom(_, _, _)
VisitFrom(fields, i, s) == IF i > Len(fields) THEN s ELSE VisitFrom(fields, i + 1, VisitField(s, fields[i]))
VisitorResult(doc) ==
    IF doc.top # "object" THEN Err
    ELSE LET s == VisitFrom(doc.fields, 1, Slots0) IN
         IF s.failed \/ s.nc = Unset \/ s.nr = Unset \/ ~s.hasData THEN Err
         ELSE IF s.nc \in HugeDims \/ s.nr \in HugeDims
              THEN Err       \* product overflows, or cannot equal a data length, or breaks the zero rule
              ELSE IF s.nc * s.nr # s.data.n THEN Err
              ELSE IF (s.nc = 0) # (s.nr = 0) THEN Err
              ELSE Ok(s.nc, s.nr, s.data.n)

\* refinement: what the visitor design does is allowed by Layer A
VisitorRefines(doc) == LET r == VisitorResult(doc) IN
                       \/ r = Expected(doc)
                       \/ (r = Err /\ MayReject(doc))

(***************************************************************************)
(* C18: serialisation of a grid (cells 1..n) and of a window.              *)
(***************************************************************************)
F(k, v) == [key |-> k, val |-> v]
SerOwned(nc, nr) == [top |-> "object", fields |-> <<F("data", Arr(nc * nr, 0)), F("num_rows", nr), F("num_cols", nc)>>]
SerView(nc, nr)  == [top |-> "object", fields |-> <<F("num_cols", nc), F("num_rows", nr), F("data", Arr(nc * nr, 0))>>]
RoundTrips(nc, nr) == /\ Expected(SerOwned(nc, nr)) = Ok(nc, nr, nc * nr)
                      /\ Expected(SerView(nc, nr)) = Ok(nc, nr, nc * nr)
                      /\ VisitorResult(SerOwned(nc, nr)) = Ok(nc, nr, nc * nr)
                      /\ VisitorResult(SerView(nc, nr)) = Ok(nc, nr, nc * nr)
=============================================================================
