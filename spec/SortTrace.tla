------------------------------- MODULE SortTrace -------------------------------
(***************************************************************************)
(* code -> spec for C16 / C17 on LONG key lines (24..160 entries), where   *)
(* TLC cannot enumerate inputs but can judge recorded ones.  The standard  *)
(* library sorts short slices by insertion (stable in effect whichever     *)
(* variant is called), so only long lines make the stability clause        *)
(* falsifiable.                                                            *)
(*                                                                         *)
(* One event = one sort call on the real crate: receiver cells before and  *)
(* after (row-major, unique ids, key = id % 3), variant, line, whether     *)
(* the cells of the parent outside the receiver stayed unchanged.          *)
(***************************************************************************)
EXTENDS Grid, Json, IOUtils, TLC

Rec == ndJsonDeserialize(IOEnv.TRACE)
VARIABLE l
KeyOf(v) == v % 3
KeysOf(s) == [i \in DOMAIN s |-> KeyOf(s[i])]

Sorted(keys) == \A i \in 1..(Len(keys) - 1) : keys[i] <= keys[i + 1]
\* every line of `after` (columns when sorting by a row, rows when sorting by a column) is one original line
\* intact, each original line exactly once: with unique ids the line is identified by any of its cells
LinesPermuted(g, h, by) ==
    IF by = "row"
    THEN /\ \A x \in 1..NC(h) : \E x0 \in 1..NC(g) : \A y \in 1..NR(g) : h[y][x] = g[y][x0]
         /\ SameBag(Flat(g), Flat(h))
    ELSE /\ \A y \in 1..NR(h) : \E y0 \in 1..NR(g) : h[y] = g[y0]
         /\ SameBag(Flat(g), Flat(h))

Accepts(e) ==
    LET g == FromFlat(e.nc, e.nr, e.before)
        h == FromFlat(e.nc, e.nr, e.after)
        keys == IF e.by = "row" THEN KeysOf(RowOf(g, e.line)) ELSE KeysOf(ColOf(g, e.line))
        p == StablePerm3(keys)
    IN /\ e.res = "unit" /\ e.outside_ok
       /\ IF e.stable
          THEN h = (IF e.by = "row" THEN ApplyColPerm(g, p) ELSE ApplyRowPerm(g, p))          \* THE stable result
          ELSE /\ Sorted(IF e.by = "row" THEN KeysOf(RowOf(h, e.line)) ELSE KeysOf(ColOf(h, e.line)))
               /\ LinesPermuted(g, h, e.by)

Init == l = 1
Step == l <= Len(Rec) /\ Accepts(Rec[l]) /\ l' = l + 1
Done == l > Len(Rec) /\ UNCHANGED l
Spec == Init /\ [][Step \/ Done]_l

\* the linear-time stable permutation agrees with the defining one (checked on every short prefix of the first event)
StableDefsAgree == \A n \in 0..5 : \A ks \in [1..n -> 0..2] : StablePerm3(ks) = StablePerm(ks)
=============================================================================
