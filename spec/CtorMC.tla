------------------------------- MODULE CtorMC -------------------------------
EXTENDS Ctor, Json

CONSTANTS MaxDim,     \* small dimensions 0..MaxDim
          BigDims,    \* Big codes tried as dimensions
          EqCells,    \* equality pairs: grids with up to this many cells over values {0,1}
          W           \* width of the machine-arithmetic refinement check
VARIABLES req, phase
vars == <<req, phase>>

Dims1 == 0..MaxDim \cup BigDims
Lens(nc, nr) == IF HasBig(nc, nr) THEN {0, 1, 2}
                ELSE {nc * nr, nc * nr + 1, nc * nr + 2} \cup (IF nc * nr > 0 THEN {nc * nr - 1, 0} ELSE {})
\* new / init with a Big dimension are generated only when they must panic without allocating:
\* zero rule broken, or both dimensions Big (the product overflows)
Generated(c, nc, nr) == c \in {"new", "init"} /\ HasBig(nc, nr) => (nc = 0 \/ nr = 0 \/ (IsBig(nc) /\ IsBig(nr) /\ nc # BigHALF /\ nr # BigHALF))

SmallShapes == {<<c, r>> \in (0..EqCells) \X (0..EqCells) : (c = 0 <=> r = 0) /\ c * r <= EqCells}
GridsOf(sh) == {[nc |-> sh[1], nr |-> sh[2], v |-> f] : f \in [1..(sh[1] * sh[2]) -> {0, 1}]}
AllGrids == UNION {GridsOf(sh) : sh \in SmallShapes}

InitCtor == \E c \in Ctors, nc \in Dims1, nr \in Dims1 : \E n \in Lens(nc, nr) :
               /\ Generated(c, nc, nr)
               /\ (c \in {"new", "init"} => n = 0)
               /\ req = [t |-> "ctor", c |-> c, nc |-> nc, nr |-> nr, n |-> n]
\* refl = FALSE: element type whose == never holds; same = TRUE: both operands are one and the same object
InitEq == \E a \in AllGrids, b \in AllGrids, refl \in BOOLEAN, same \in BOOLEAN :
             /\ (same => a = b)
             /\ req = [t |-> "eq", a |-> a, b |-> b, refl |-> refl, same |-> same]
Init == (InitCtor \/ InitEq) /\ phase = "pending"

Step == /\ phase = "pending" /\ phase' = "done" /\ UNCHANGED req
        /\ IF req.t = "ctor"
           THEN PrintT(<<"CASE", ToJson([fam |-> "ctor", t |-> "ctor", c |-> req.c, nc |-> req.nc, nr |-> req.nr, n |-> req.n,
                                         x |-> [res |-> Result(req.c, req.nc, req.nr, req.n)]])>>)
           ELSE PrintT(<<"CASE", ToJson([fam |-> "ctor", t |-> "eq", a |-> req.a, b |-> req.b, refl |-> req.refl, same |-> req.same,
                                         x |-> [eq |-> EqExpectedR(req.a, req.b, req.refl)]])>>)
Spec == Init /\ [][Step]_vars

(* ---- invariants ---- *)
\* whatever is accepted has consistent dimensions and row-major contents of the right length
AcceptedShapeOK == req.t = "ctor" =>
    LET r == Result(req.c, req.nc, req.nr, req.n) IN
    r.k = "grid" => /\ Len(r.v) = r.nc * r.nr /\ (r.nc = 0 <=> r.nr = 0)
                    /\ (req.c \in {"from_vec", "from_box"} => Len(r.v) = req.n)
\* Layer B: the checked_mul guard equals the mathematical rule for all W-bit inputs
GuardInv == GuardRefines(W)
\* equality is an equivalence compatible with the definition
EqInv == req.t = "eq" => /\ (EqExpectedR(req.a, req.b, TRUE) <=> req.a = req.b)
                         /\ (EqExpectedR(req.a, req.b, FALSE) => EqExpectedR(req.a, req.b, TRUE))
=============================================================================
