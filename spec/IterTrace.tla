------------------------------- MODULE IterTrace -------------------------------
(***************************************************************************)
(* code -> spec for the iterator family on shapes beyond TLC's bounds      *)
(* (long rows / columns, thousands of cells): each event is one call       *)
(* SEQUENCE made on one live iterator of the real crate, with every        *)
(* observed result, the items drained afterwards and the root after the    *)
(* yielded mutable references were written through.  Everything must be    *)
(* what the ideal sequence of SeqIter.tla says.                            *)
(***************************************************************************)
EXTENDS SeqIter, Json, IOUtils

Rec == ndJsonDeserialize(IOEnv.TRACE)
VARIABLE l

RECURSIVE RunCalls(_, _, _, _, _, _, _)
\* returns [ok, lo, hi, ys, done]
RunCalls(w, kind, calls, i, lo, hi, ys) ==
    IF i > Len(calls) THEN [ok |-> TRUE, lo |-> lo, hi |-> hi, ys |-> ys, done |-> FALSE]
    ELSE LET c == calls[i]  r == IterApply(w, kind, lo, hi, c.op, c.a) IN
         IF ~OpAllowed(kind, c.op) \/ c.res # r.res THEN [ok |-> FALSE, lo |-> lo, hi |-> hi, ys |-> ys, done |-> FALSE]
         ELSE IF r.done THEN [ok |-> i = Len(calls), lo |-> r.lo, hi |-> r.hi, ys |-> ys \o r.y, done |-> TRUE]
         ELSE RunCalls(w, kind, calls, i + 1, r.lo, r.hi, ys \o r.y)

Accepts(e) ==
    LET root == FromFlat(e.nc, e.nr, e.ids)
        w == Recv(root, e.stack)
        kind == e.kind
        r == RunCalls(w, kind, e.calls, 1, 0, NItems(w, kind), << >>)
    IN /\ e.built /\ e.complete /\ r.ok
       /\ YieldOnce(r.ys)
       /\ IF r.done THEN e.rem_n = 0
          ELSE /\ e.rem_len = r.hi - r.lo /\ e.rem_n = r.hi - r.lo
               /\ e.remaining = CellsOfRange(w, kind, r.lo + 1, r.hi)
       /\ e.final_root = Flat(IF kind.t \in MutKinds THEN PutBack(root, e.stack, WrittenWindow(w, kind, r.ys)) ELSE root)

Init == l = 1
Step == l <= Len(Rec) /\ Accepts(Rec[l]) /\ l' = l + 1
Done == l > Len(Rec) /\ UNCHANGED l
Spec == Init /\ [][Step \/ Done]_l
TypeOK == l \in 1..(Len(Rec) + 1)
=============================================================================
