-------------------------------- MODULE Grid --------------------------------
(***************************************************************************)
(* Layer A vocabulary: the plain "rows of cells" model every property of   *)
(* toodee is worded against.                                               *)
(*                                                                         *)
(* A grid is a sequence of rows; every row is a sequence of cell values    *)
(* (integers: element ids / origins) of one common, non-zero width.  The   *)
(* empty grid is << >>; "both dimensions zero or neither" is therefore     *)
(* built into the representation.  API coordinates are 0-based (col,row);  *)
(* TLA+ sequences are 1-based.                                             *)
(*                                                                         *)
(* Arguments that may be enormous (usize::MAX, MAX/2, 2^32, products that  *)
(* wrap) are modelled by the integers above BIG.  Layer A only knows that  *)
(* they are larger than every dimension; the conformance harness maps each *)
(* of them to a *set* of concrete 64-bit values (see DESIGN 4.4).          *)
(***************************************************************************)
EXTENDS Naturals, Sequences, FiniteSets

BIG      == 1000000
BigMAX   == BIG + 1      \* usize::MAX
BigHALF  == BIG + 2      \* usize::MAX / 2
BigHALF1 == BIG + 3      \* usize::MAX / 2 + 1  (2^63)
BigP32   == BIG + 4      \* 2^32
BigWRAP  == BIG + 5      \* "wrap-adversarial": harness picks i >= dim with i*stride = p (mod 2^64)
BigAll   == {BigMAX, BigHALF, BigHALF1, BigP32, BigWRAP}
IsBig(x) == x > BIG

Range(s)  == {s[i] : i \in DOMAIN s}
Min2(a,b) == IF a <= b THEN a ELSE b
Max2(a,b) == IF a >= b THEN a ELSE b

RECURSIVE FlatFrom(_, _)
FlatFrom(g, i) == IF i > Len(g) THEN << >> ELSE g[i] \o FlatFrom(g, i + 1)

IsGrid(g) == g = << >> \/ (Len(g[1]) >= 1 /\ \A y \in 1..Len(g) : Len(g[y]) = Len(g[1]))
NC(g)     == IF g = << >> THEN 0 ELSE Len(g[1])
NR(g)     == Len(g)
Dims(g)   == <<NC(g), NR(g)>>
Flat(g)   == FlatFrom(g, 1)                                  \* row-major contents
FromFlat(c, r, s) == IF c = 0 \/ r = 0 THEN << >>
                     ELSE [y \in 1..r |-> [x \in 1..c |-> s[(y - 1) * c + x]]]
Cell(g, c, r) == g[r + 1][c + 1]
InRange(g, c, r) == c < NC(g) /\ r < NR(g)
RowOf(g, r) == g[r + 1]
ColOf(g, c) == [y \in 1..NR(g) |-> g[y][c + 1]]
SetCell(g, c, r, v) == [g EXCEPT ![r + 1][c + 1] = v]

(* ---- structural edits (C06, C07) ---- *)
InsertRowOK(g, i, n) == i <= NR(g) /\ (g = << >> \/ n = NC(g))
InsertRow(g, i, items) == IF items = << >> THEN g      \* only reachable when g = << >>
                          ELSE SubSeq(g, 1, i) \o <<items>> \o SubSeq(g, i + 1, Len(g))
RemoveRow(g, i) == SubSeq(g, 1, i) \o SubSeq(g, i + 2, Len(g))
InsertColOK(g, i, n) == i <= NC(g) /\ (g = << >> \/ n = NR(g))
InsertCol(g, i, items) ==
    IF g = << >> THEN [y \in 1..Len(items) |-> <<items[y]>>]
    ELSE [y \in 1..Len(g) |-> SubSeq(g[y], 1, i) \o <<items[y]>> \o SubSeq(g[y], i + 1, Len(g[y]))]
RemoveCol(g, i) == IF NC(g) = 1 THEN << >>
                   ELSE [y \in 1..Len(g) |-> SubSeq(g[y], 1, i) \o SubSeq(g[y], i + 2, Len(g[y]))]
SwapDimensions(g) == FromFlat(NR(g), NC(g), Flat(g))         \* dimensions exchanged, data NOT transposed

(* ---- windows (C03, C04) ---- *)
WindowOK(g, s, e) == s[1] <= e[1] /\ s[2] <= e[2] /\ e[1] <= NC(g) /\ e[2] <= NR(g)
Window(g, s, e) == IF e[1] = s[1] \/ e[2] = s[2] THEN << >>
                   ELSE [y \in 1..(e[2] - s[2]) |-> SubSeq(g[s[2] + y], s[1] + 1, e[1])]
\* write the sub-grid w back at offset s: the frame condition of C04
Embed(g, s, w) == [y \in 1..Len(g) |-> [x \in 1..Len(g[y]) |->
                    IF w # << >> /\ y > s[2] /\ y <= s[2] + NR(w) /\ x > s[1] /\ x <= s[1] + NC(w)
                    THEN w[y - s[2]][x - s[1]] ELSE g[y][x]]]

(* ---- primitives (C13) ---- *)
SwapCells(g, a, b) == [y \in 1..NR(g) |-> [x \in 1..NC(g) |->
                         IF <<x - 1, y - 1>> = a THEN Cell(g, b[1], b[2])
                         ELSE IF <<x - 1, y - 1>> = b THEN Cell(g, a[1], a[2]) ELSE g[y][x]]]
SwapRows(g, r1, r2) == [y \in 1..NR(g) |-> IF y = r1 + 1 THEN g[r2 + 1] ELSE IF y = r2 + 1 THEN g[r1 + 1] ELSE g[y]]
SwapCols(g, c1, c2) == [y \in 1..NR(g) |-> [x \in 1..NC(g) |->
                         IF x = c1 + 1 THEN g[y][c2 + 1] ELSE IF x = c2 + 1 THEN g[y][c1 + 1] ELSE g[y][x]]]
Fill(g, v) == [y \in 1..NR(g) |-> [x \in 1..NC(g) |-> v]]

(* ---- copies (C14) ---- *)
\* src = <<tl, br>> (exclusive bottom-right), dest = top-left of the destination
CopyWithinOK(g, tl, br, d) == /\ tl[1] <= br[1] /\ tl[2] <= br[2]
                              /\ br[1] <= NC(g) /\ br[2] <= NR(g)
                              /\ ~IsBig(d[1]) /\ ~IsBig(d[2])
                              /\ d[1] + (br[1] - tl[1]) <= NC(g)
                              /\ d[2] + (br[2] - tl[2]) <= NR(g)
CopyWithin(g, tl, br, d) ==
    LET w == br[1] - tl[1]  h == br[2] - tl[2] IN
    [y \in 1..NR(g) |-> [x \in 1..NC(g) |->
        IF y > d[2] /\ y <= d[2] + h /\ x > d[1] /\ x <= d[1] + w
        THEN g[tl[2] + (y - d[2])][tl[1] + (x - d[1])] ELSE g[y][x]]]

(* ---- translate / flips (C15) ---- *)
TranslateOK(g, m) == m[1] <= NC(g) /\ m[2] <= NR(g)
Translate(g, m) == [y \in 1..NR(g) |-> [x \in 1..NC(g) |->
                      g[((y - 1 + m[2]) % NR(g)) + 1][((x - 1 + m[1]) % NC(g)) + 1]]]
FlipRows(g) == [y \in 1..NR(g) |-> g[NR(g) + 1 - y]]
FlipCols(g) == [y \in 1..NR(g) |-> [x \in 1..NC(g) |-> g[y][NC(g) + 1 - x]]]

(* ---- permutations and sorting (C16, C17) ---- *)
IsPerm(p, n) == DOMAIN p = 1..n /\ Range(p) = 1..n
ApplyColPerm(g, p) == [y \in 1..NR(g) |-> [x \in 1..NC(g) |-> g[y][p[x]]]]   \* new column x = old column p[x]
ApplyRowPerm(g, p) == [y \in 1..NR(g) |-> g[p[y]]]                           \* new row y = old row p[y]
IsSortingPerm(keys, p) == /\ IsPerm(p, Len(keys))
                          /\ \A a, b \in 1..Len(keys) : a < b => keys[p[a]] <= keys[p[b]]
IsStablePerm(keys, p)  == /\ IsSortingPerm(keys, p)
                          /\ \A a, b \in 1..Len(keys) : (a < b /\ keys[p[a]] = keys[p[b]]) => p[a] < p[b]
\* the unique stable sorting permutation, computed (selection by (key, position))
RECURSIVE StableFrom(_, _)
StableFrom(keys, left) ==
    IF left = {} THEN << >>
    ELSE LET m == CHOOSE i \in left : \A j \in left : keys[i] < keys[j] \/ (keys[i] = keys[j] /\ i <= j)
         IN <<m>> \o StableFrom(keys, left \ {m})
StablePerm(keys) == StableFrom(keys, 1..Len(keys))

\* the same permutation for keys drawn from 0..2, computed in linear time (used for long key lines):
\* positions with key 0 in order, then key 1, then key 2
Positions(keys, k) == SelectSeq([i \in 1..Len(keys) |-> i], LAMBDA i : keys[i] = k)
StablePerm3(keys) == Positions(keys, 0) \o Positions(keys, 1) \o Positions(keys, 2)

(* ---- bags of cell values (C05 ledger) ---- *)
CountIn(s, v) == Cardinality({i \in DOMAIN s : s[i] = v})
SameBag(s, t) == Len(s) = Len(t) /\ \A v \in Range(s) \cup Range(t) : CountIn(s, v) = CountIn(t, v)
\* linear-ish comparison for long sequences (trace validation of arrays with hundreds of cells): exact when at least
\* one side has no repeated value, otherwise length + support (SameBag is quadratic)
NoDup(s) == Cardinality(Range(s)) = Len(s)
SameBagFast(s, t) == IF Len(s) <= 48 THEN SameBag(s, t)
                     ELSE Len(s) = Len(t) /\ Range(s) = Range(t)
SubBagFast(s, t) == IF Len(s) <= 48 THEN \A v \in Range(s) : CountIn(s, v) <= CountIn(t, v)
                    ELSE Range(s) \subseteq Range(t) /\ Len(s) <= Len(t)
=============================================================================
