------------------------------- MODULE AlgosMC -------------------------------
(***************************************************************************)
(* Every small input of the three Layer B algorithms; the invariants say   *)
(* that each computes its Layer A operator, terminates, and never uses an  *)
(* index outside its slice.                                                *)
(***************************************************************************)
EXTENDS Algos, FiniteSets

CONSTANTS TMax,      \* translate: shapes 1..TMax x 1..TMax, every mid 0..dim
          PMax,      \* swap trace: every permutation of 0..PMax elements
          CMax,      \* copy_within: shapes up to CMax x CMax, every valid (rectangle, destination)
          Which      \* subset of {"translate", "swaptrace", "copywithin"}
VARIABLE inp
MkGrid(c, r) == FromFlat(c, r, [i \in 1..(c * r) |-> i])
Perms(n) == {p \in [1..n -> 1..n] : \A i, j \in 1..n : i # j => p[i] # p[j]}

Init == \/ /\ "translate" \in Which
           /\ \E c \in 1..TMax, r \in 1..TMax : \E mc \in 0..c, mr \in 0..r : inp = [a |-> "translate", c |-> c, r |-> r, m |-> <<mc, mr>>]
        \/ /\ "swaptrace" \in Which
           /\ \E n \in 0..PMax : \E p \in Perms(n) : inp = [a |-> "swaptrace", p |-> p]
        \/ /\ "copywithin" \in Which
           /\ \E c \in 1..CMax, r \in 1..CMax : \E tc \in 0..c, bc \in 0..c, tr \in 0..r, br \in 0..r :
                /\ tc <= bc /\ tr <= br
                /\ \E dc \in 0..(c - (bc - tc)), dr \in 0..(r - (br - tr)) :
                     inp = [a |-> "copywithin", c |-> c, r |-> r, tl |-> <<tc, tr>>, br |-> <<bc, br>>, d |-> <<dc, dr>>]
Next == UNCHANGED inp
Spec == Init /\ [][Next]_inp

TranslateRefines == inp.a = "translate" =>
    LET g == MkGrid(inp.c, inp.r)  res == TranslateAlg(g, inp.m) IN
    ~res.bad /\ res.g = Translate(g, inp.m)
SwapTraceRefines == inp.a = "swaptrace" =>
    LET n == Len(inp.p)  res == SwapTraceAlg(inp.p)
        line == [i \in 1..n |-> 100 + i]
    IN /\ ~res.bad
       /\ Len(res.trace) <= n
       /\ \A k \in DOMAIN res.trace : res.trace[k][1] < n /\ res.trace[k][2] < n
       /\ ApplySwaps(line, res.trace, 1) = [i \in 1..n |-> line[inp.p[i]]]
CopyWithinRefines == inp.a = "copywithin" =>
    LET g == MkGrid(inp.c, inp.r) IN CopyWithinAlg(g, inp.tl, inp.br, inp.d) = CopyWithin(g, inp.tl, inp.br, inp.d)
=============================================================================
