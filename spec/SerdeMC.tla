------------------------------- MODULE SerdeMC -------------------------------
(***************************************************************************)
(* Enumerates the document grammar in strata, checks the Layer A / Layer B *)
(* invariants on every document, and emits each as a replay case.          *)
(***************************************************************************)
EXTENDS Serde, Json, Sequences

CONSTANTS Strata,     \* subset of {"structure", "values", "tops", "positional", "roundtrip"}
          MaxLen,     \* maximal number of fields in the structure stratum
          RtMax,      \* round-trip stratum: every shape 0..RtMax x 0..RtMax ...
          RtExtra     \* ... plus these larger ones, each encoded as 1000 * nc + nr

VARIABLES doc, phase, result, meta
vars == <<doc, phase, result, meta>>

\* base values used when exploring structure: a consistent 2 x 1 array
BaseVal(key, variant) ==
    CASE key = "num_cols" -> IF variant = 0 THEN 2 ELSE 1
      [] key = "num_rows" -> IF variant = 0 THEN 1 ELSE 2
      [] key = "data"     -> IF variant = 0 THEN Arr(2, 0) ELSE Arr(3, 0)
      [] key = "extra"    -> 7

\* all sequences of (key, variant) up to MaxLen; variant 1 only matters for duplicates
FieldSeqs == UNION { [1..n -> Keys \X {0, 1}] : n \in 0..MaxLen }
MkFields(ks) == [i \in DOMAIN ks |-> F(ks[i][1], BaseVal(ks[i][1], ks[i][2]))]
\* variant 1 (a different value) is used only for keys that occur more than once, in any position
VariantOK(ks) == \A i \in DOMAIN ks : ks[i][2] = 1 => \E j \in DOMAIN ks : j # i /\ ks[j][1] = ks[i][1]

ValDims == 0..3 \cup HugeDims \cup BadDims          \* dimension tokens tried in the values stratum
Orders == { <<"num_cols", "num_rows", "data">>, <<"num_cols", "data", "num_rows">>, <<"num_rows", "num_cols", "data">>,
            <<"num_rows", "data", "num_cols">>, <<"data", "num_cols", "num_rows">>, <<"data", "num_rows", "num_cols">> }
Prod(a, b) == IF a \in SmallDims /\ b \in SmallDims THEN a * b ELSE 1
DataTokens(a, b) == LET p == Prod(a, b) IN
                    {Arr(p, 0), Arr(p + 1, 0), NotArr} \cup (IF p > 0 THEN {Arr(p - 1, 0), Arr(p, 1), Arr(p, p)} ELSE {})

InitStructure == /\ "structure" \in Strata
                 /\ \E ks \in FieldSeqs : VariantOK(ks) /\ doc = [top |-> "object", fields |-> MkFields(ks)]
                 /\ meta = "structure"
InitValues == /\ "values" \in Strata
              /\ \E o \in Orders, a \in ValDims, b \in ValDims : \E d \in DataTokens(a, b) :
                    doc = [top |-> "object",
                           fields |-> [i \in 1..3 |-> F(o[i], IF o[i] = "num_cols" THEN a ELSE IF o[i] = "num_rows" THEN b ELSE d)]]
              /\ meta = "values"
InitTops == /\ "tops" \in Strata
            /\ \E t \in {"array", "number", "string", "null"} : doc = [top |-> t, fields |-> << >>]
            /\ meta = "tops"
\* positional documents: a top-level sequence of up to MaxLen items, each a dimension token or a data token
\* (items are drawn through an integer code: TLC cannot hold integers and records in one set)
PosItem(k) == CASE k = 0 -> 0 [] k = 1 -> 1 [] k = 2 -> 2 [] k = 3 -> 5 [] k = 4 -> MAXU [] k = 5 -> NEG [] k = 6 -> STR [] k = 7 -> NUL
                [] k = 8 -> Arr(0, 0) [] k = 9 -> Arr(2, 0) [] k = 10 -> Arr(1, 1) [] k = 11 -> Arr(5, 0)
InitPositional == /\ "positional" \in Strata
                  /\ \E n \in 0..MaxLen : \E ks \in [1..n -> 0..11] :
                        doc = [top |-> "array", fields |-> [i \in 1..n |-> F("pos", PosItem(ks[i]))]]
                  /\ meta = "positional"
InitRoundTrip == /\ "roundtrip" \in Strata
                 /\ \E sh \in {1000 * c + r : c \in 0..RtMax, r \in 0..RtMax} \cup RtExtra, v \in {"owned", "view"} :
                    LET nc == sh \div 1000  nr == sh % 1000 IN
                      /\ (nc = 0 <=> nr = 0)
                      /\ doc = IF v = "owned" THEN SerOwned(nc, nr) ELSE SerView(nc, nr)
                      /\ meta = "roundtrip_" \o v

Init == /\ (InitStructure \/ InitValues \/ InitTops \/ InitPositional \/ InitRoundTrip)
        /\ phase = "pending" /\ result = Err

Deserialize == /\ phase = "pending"
               /\ phase' = "done"
               /\ result' = Expected(doc)
               /\ UNCHANGED <<doc, meta>>
               /\ PrintT(<<"CASE", ToJson([fam |-> "serde", stratum |-> meta, doc |-> doc,
                                           x |-> [res |-> Expected(doc), may_reject |-> MayReject(doc),
                                                  may_accept_consistent |-> MayAcceptConsistent(doc)]])>>)
Next == Deserialize
Spec == Init /\ [][Next]_vars

(* ---- invariants ---- *)
\* C19 on the specification: an accepted document has consistent, in-range dimensions
AcceptOnlyConsistent == (phase = "done" /\ result.k = "ok") =>
                          /\ result.nc * result.nr = result.n
                          /\ (result.nc = 0 <=> result.nr = 0)
                          /\ \A d \in ValsOf(doc, "data") : d.t = "arr" /\ d.n = result.n /\ d.bad = 0
\* Layer B (the visitor as designed) refines Layer A on every document
VisitorInv == VisitorRefines(doc)
\* C18 on the specification
RoundTripInv == \A nc \in 0..3, nr \in 0..3 : (nc = 0 <=> nr = 0) => RoundTrips(nc, nr)
=============================================================================
