------------------------------- MODULE ShapeTrace -------------------------------
(***************************************************************************)
(* code -> spec, third binding path: the repository's OWN test-suite, run  *)
(* with the cfg-guarded hook in src/toodee.rs, logs every shape-changing   *)
(* call of every array any test creates: operation, scalar arguments,      *)
(* [num_cols, num_rows, data.len()] before and after, and whether the call *)
(* unwound.  Each line must be a transition of the dimension-only          *)
(* projection of the history machine (TooDee.tla), and C01's shape         *)
(* invariant must hold before and after every call - including the calls   *)
(* whose results the tests never look at, and calls that panicked.         *)
(***************************************************************************)
EXTENDS Naturals, Sequences, Json, IOUtils, TLC

Rec == ndJsonDeserialize(IOEnv.TRACE)
VARIABLE l

ShapeOK(p) == p[3] = p[1] * p[2] /\ (p[1] = 0 <=> p[2] = 0)

Accepts(e) ==
    LET c == e.pre[1]  r == e.pre[2]  len == e.pre[3]
        c2 == e.post[1]  r2 == e.post[2]  len2 == e.post[3]
        i == e.a[1]
    IN /\ ShapeOK(e.pre) /\ ShapeOK(e.post)
       /\ CASE e.op \in {"new", "init", "from_vec"} ->
                 ~e.panicked /\ e.post = <<e.a[1], e.a[2], e.a[1] * e.a[2]>>
            [] e.op = "clear" -> e.post = <<0, 0, 0>>
            [] e.op = "swap_dimensions" -> e.post = <<r, c, len>>
            [] e.op = "insert_row" ->
                 IF e.panicked THEN TRUE                                   \* C11: any valid array (ShapeOK above)
                 ELSE /\ i <= r
                      /\ \/ (r = 0 /\ e.post = e.pre)                      \* an empty row into an empty array
                         \/ (r2 = r + 1 /\ c2 > 0 /\ (r > 0 => c2 = c))
            [] e.op = "insert_col" ->
                 IF e.panicked THEN TRUE
                 ELSE /\ i <= c
                      /\ \/ (c = 0 /\ e.post = e.pre)
                         \/ (c2 = c + 1 /\ r2 > 0 /\ (c > 0 => r2 = r))
            [] e.op = "remove_row" ->
                 IF e.panicked THEN e.post = e.pre /\ ~(i < r)             \* rejected: nothing changed
                 ELSE i < r /\ r2 = r - 1 /\ c2 = (IF r2 = 0 THEN 0 ELSE c)
            [] e.op = "remove_col" ->
                 IF e.panicked THEN e.post = e.pre /\ ~(i < c)
                 ELSE i < c /\ e.post = <<0, 0, 0>>                        \* empty while the drain is outstanding
            [] e.op = "drain_col_drop" ->
                 LET onc == e.a[2]  onr == e.a[3] IN
                 /\ e.pre = <<0, 0, 0>> /\ i < onc
                 /\ c2 = onc - 1 /\ r2 = (IF onc - 1 = 0 THEN 0 ELSE onr)

Init == l = 1
Step == l <= Len(Rec) /\ Accepts(Rec[l]) /\ l' = l + 1
Done == l > Len(Rec) /\ UNCHANGED l
Spec == Init /\ [][Step \/ Done]_l
TypeOK == l \in 1..(Len(Rec) + 1)
=============================================================================
