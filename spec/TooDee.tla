-------------------------------- MODULE TooDee --------------------------------
(***************************************************************************)
(* Layer A history machine for an OWNED array (C01, C05, C06, C07, C11,    *)
(* C12, and the owned-array face of C13, C15, C16, C17, C20).              *)
(*                                                                         *)
(* One public call = one step.  The meaning of every call is the pure      *)
(* operator Apply(st, op, a): it returns the successor state and the       *)
(* observable result.  The model-checking module (TooDeeMC) draws op and   *)
(* arguments nondeterministically; the trace module (TooDeeTrace) takes    *)
(* them from a log recorded from the real code.  Both therefore share one  *)
(* definition of the semantics.                                            *)
(*                                                                         *)
(* State                                                                   *)
(*   phase  : "none" (nothing constructed yet) | "live" | "gone" (consumed *)
(*            or dropped)                                                  *)
(*   grid   : the plain rows-of-cells model (Grid.tla); cells are element  *)
(*            values = origin ids                                          *)
(*   handle : outstanding borrow - none, a row/column drain, or the        *)
(*            by-value iterator: [kind, items, f, b] (f/b = taken from     *)
(*            front/back).  While a drain is outstanding `grid` already    *)
(*            holds what MUST remain once it is released.                  *)
(*   held   : values handed to the caller so far (sequence, in order)      *)
(***************************************************************************)
EXTENDS Grid, TLC

NoHandle == [kind |-> "none"]
Unit     == [k |-> "unit"]
Panic    == [k |-> "panic"]
None     == [k |-> "none"]
Some(v)  == [k |-> "some", v |-> v]
Val(n)   == [k |-> "val", v |-> n]
Ids(s)   == [k |-> "ids", v |-> s]
Drain(n) == [k |-> "drain", v |-> n]

KeyOf(v) == v % 3          \* the ordering used by every sort: compare KeyOf(value); ties are distinguishable by value
KeysOf(s) == [i \in DOMAIN s |-> KeyOf(s[i])]

Mk(ph, g, h, held, res) == [phase |-> ph, grid |-> g, handle |-> h, held |-> held, res |-> res]
Same(st, res)    == Mk(st.phase, st.grid, st.handle, st.held, res)
Rejected(st)     == Same(st, Panic)                          \* a rejected call changes NOTHING
Upd(st, g, res)  == Mk("live", g, NoHandle, st.held, res)

CtorOK(nc, nr, n) == ~IsBig(nc) /\ ~IsBig(nr) /\ (nc = 0 <=> nr = 0) /\ nc * nr = n

ConstructorOps == {"default", "with_capacity", "new", "init", "from_vec", "from_box"}
DrainOps       == {"d_next", "d_next_back", "d_len", "d_drop", "d_nth", "d_nth_back", "d_count", "d_last", "d_collect", "d_rcollect", "d_fold", "d_rfold", "d_for_each", "d_find"}

Remaining(h) == SubSeq(h.items, h.f + 1, Len(h.items) - h.b)

(***************************************************************************)
(* The meaning of every call.                                              *)
(***************************************************************************)
ApplyCtor(st, op, a) ==
    CASE op = "default"       -> Upd(st, << >>, Unit)
      [] op = "with_capacity" -> Upd(st, << >>, Unit)
      [] op = "new"           -> IF CtorOK(a.nc, a.nr, a.nc * a.nr)
                                 THEN Upd(st, FromFlat(a.nc, a.nr, [i \in 1..(a.nc * a.nr) |-> 0]), Unit)
                                 ELSE Rejected(st)
      [] op = "init"          -> IF CtorOK(a.nc, a.nr, a.nc * a.nr)
                                 THEN Upd(st, FromFlat(a.nc, a.nr, [i \in 1..(a.nc * a.nr) |-> a.v]), Unit)
                                 ELSE Rejected(st)
      [] op \in {"from_vec", "from_box"} ->
                                 IF CtorOK(a.nc, a.nr, Len(a.items))
                                 THEN Upd(st, FromFlat(a.nc, a.nr, a.items), Unit)
                                 ELSE Rejected(st)

ApplyHandle(st, op, a) ==
    LET h == st.handle  n == Len(h.items) - h.f - h.b IN
    CASE op = "d_next"      -> IF n > 0
                               THEN Mk(st.phase, st.grid, [h EXCEPT !.f = @ + 1],
                                       Append(st.held, h.items[h.f + 1]), Some(h.items[h.f + 1]))
                               ELSE Same(st, None)
      [] op = "d_next_back" -> IF n > 0
                               THEN Mk(st.phase, st.grid, [h EXCEPT !.b = @ + 1],
                                       Append(st.held, h.items[Len(h.items) - h.b]), Some(h.items[Len(h.items) - h.b]))
                               ELSE Same(st, None)
      [] op = "d_len"       -> Same(st, Val(n))
      [] op = "d_drop"      -> Mk(st.phase, st.grid, NoHandle, st.held, Unit)    \* the rest of the line is dropped
      \* the other Iterator / DoubleEndedIterator entry points of a drain mean what they mean for any iterator over the
      \* remaining items; items stepped over are consumed (dropped), never left behind
      [] op \in {"d_nth", "d_find"} -> IF a.n < n      \* (find: the predicate stops at its (n+1)-th invocation)
                               THEN Mk(st.phase, st.grid, [h EXCEPT !.f = @ + a.n + 1],
                                       Append(st.held, h.items[h.f + a.n + 1]), Some(h.items[h.f + a.n + 1]))
                               ELSE Mk(st.phase, st.grid, [h EXCEPT !.f = @ + n], st.held, None)
      [] op = "d_nth_back"  -> IF a.n < n
                               THEN Mk(st.phase, st.grid, [h EXCEPT !.b = @ + a.n + 1],
                                       Append(st.held, h.items[Len(h.items) - h.b - a.n]), Some(h.items[Len(h.items) - h.b - a.n]))
                               ELSE Mk(st.phase, st.grid, [h EXCEPT !.b = @ + n], st.held, None)
      \* consuming adaptors: the drain is moved into the call and dropped by it
      [] op = "d_count"     -> Mk(st.phase, st.grid, NoHandle, st.held, Val(n))
      [] op = "d_last"      -> IF n > 0
                               THEN Mk(st.phase, st.grid, NoHandle, Append(st.held, h.items[Len(h.items) - h.b]), Some(h.items[Len(h.items) - h.b]))
                               ELSE Mk(st.phase, st.grid, NoHandle, st.held, None)
      \* fold / rfold hand every remaining item to a caller-supplied closure (which here keeps it)
      [] op \in {"d_collect", "d_fold", "d_for_each"} -> Mk(st.phase, st.grid, NoHandle, st.held \o Remaining(h), Ids(Remaining(h)))
      [] op \in {"d_rcollect", "d_rfold"} -> LET rv == [i \in 1..n |-> Remaining(h)[n + 1 - i]] IN
                               Mk(st.phase, st.grid, NoHandle, st.held \o rv, Ids(rv))

ApplyLive(st, op, a) ==
    LET g == st.grid  c == NC(st.grid)  r == NR(st.grid) IN
    CASE op = "insert_row" -> IF ~IsBig(a.index) /\ InsertRowOK(g, a.index, Len(a.items))
                              THEN Upd(st, InsertRow(g, a.index, a.items), Unit) ELSE Rejected(st)
      [] op = "push_row"   -> IF InsertRowOK(g, r, Len(a.items))
                              THEN Upd(st, InsertRow(g, r, a.items), Unit) ELSE Rejected(st)
      [] op = "insert_col" -> IF ~IsBig(a.index) /\ InsertColOK(g, a.index, Len(a.items))
                              THEN Upd(st, InsertCol(g, a.index, a.items), Unit) ELSE Rejected(st)
      [] op = "push_col"   -> IF InsertColOK(g, c, Len(a.items))
                              THEN Upd(st, InsertCol(g, c, a.items), Unit) ELSE Rejected(st)
      [] op = "remove_row" -> IF a.index < r
                              THEN Mk("live", RemoveRow(g, a.index),
                                      [kind |-> "drain", line |-> "row", idx |-> a.index, items |-> RowOf(g, a.index), f |-> 0, b |-> 0],
                                      st.held, Drain(c))
                              ELSE Rejected(st)
      [] op = "pop_row"    -> IF r > 0
                              THEN Mk("live", RemoveRow(g, r - 1),
                                      [kind |-> "drain", line |-> "row", idx |-> r - 1, items |-> RowOf(g, r - 1), f |-> 0, b |-> 0],
                                      st.held, Drain(c))
                              ELSE Same(st, None)
      [] op = "remove_col" -> IF a.index < c
                              THEN Mk("live", RemoveCol(g, a.index),
                                      [kind |-> "drain", line |-> "col", idx |-> a.index, items |-> ColOf(g, a.index), f |-> 0, b |-> 0],
                                      st.held, Drain(r))
                              ELSE Rejected(st)
      [] op = "pop_col"    -> IF c > 0
                              THEN Mk("live", RemoveCol(g, c - 1),
                                      [kind |-> "drain", line |-> "col", idx |-> c - 1, items |-> ColOf(g, c - 1), f |-> 0, b |-> 0],
                                      st.held, Drain(r))
                              ELSE Same(st, None)
      [] op = "clear"           -> Upd(st, << >>, Unit)
      [] op = "swap_dimensions" -> Upd(st, SwapDimensions(g), Unit)
      [] op \in {"reserve", "reserve_exact", "shrink_to_fit"} -> Same(st, Unit)
      [] op = "fill"       -> Upd(st, Fill(g, a.v), Unit)
      [] op = "set"        -> IF InRange(g, a.c, a.r) THEN Upd(st, SetCell(g, a.c, a.r, a.v), Unit) ELSE Rejected(st)
      \* the same write through the flat row-major slice: data_mut() (a.via = 0) or AsMut<[T]> (a.via = 1); cell i of the
      \* slice is cell (i % c, i \div c) of the grid - this is what ties the contiguous layout to the coordinates for writers
      [] op = "set_flat"   -> IF ~IsBig(a.i) /\ a.i < c * r THEN Upd(st, SetCell(g, a.i % c, a.i \div c, a.v), Unit) ELSE Rejected(st)
      [] op = "swap"       -> IF InRange(g, a.c1, a.r1) /\ InRange(g, a.c2, a.r2)
                              THEN Upd(st, SwapCells(g, <<a.c1, a.r1>>, <<a.c2, a.r2>>), Unit) ELSE Rejected(st)
      [] op = "swap_rows"  -> IF a.r1 < r /\ a.r2 < r THEN Upd(st, SwapRows(g, a.r1, a.r2), Unit) ELSE Rejected(st)
      [] op = "swap_cols"  -> IF a.c1 < c /\ a.c2 < c THEN Upd(st, SwapCols(g, a.c1, a.c2), Unit) ELSE Rejected(st)
      [] op = "translate"  -> IF TranslateOK(g, <<a.mc, a.mr>>)
                              THEN Upd(st, IF g = << >> THEN g ELSE Translate(g, <<a.mc, a.mr>>), Unit)
                              ELSE Rejected(st)
      [] op = "flip_rows"  -> Upd(st, FlipRows(g), Unit)
      [] op = "flip_cols"  -> Upd(st, FlipCols(g), Unit)
      [] op = "sort_by_row" -> IF a.row < r
                               THEN Upd(st, ApplyColPerm(g, StablePerm(KeysOf(RowOf(g, a.row)))), Unit)
                               ELSE Rejected(st)
      [] op = "sort_by_col" -> IF a.col < c
                               THEN Upd(st, ApplyRowPerm(g, StablePerm(KeysOf(ColOf(g, a.col)))), Unit)
                               ELSE Rejected(st)
      \* the key / natural-order forms of the sorts (same meaning; they call a key function / Ord instead of a comparator)
      [] op \in {"sort_by_row_key", "sort_row_ord"} -> IF a.row < r
                               THEN Upd(st, ApplyColPerm(g, StablePerm(KeysOf(RowOf(g, a.row)))), Unit)
                               ELSE Rejected(st)
      [] op \in {"sort_by_col_key", "sort_col_ord"} -> IF a.col < c
                               THEN Upd(st, ApplyRowPerm(g, StablePerm(KeysOf(ColOf(g, a.col)))), Unit)
                               ELSE Rejected(st)
      \* CopyOps on an owned array: every cell is overwritten with a clone of the source's cell (sizes must match)
      [] op = "clone_from_slice"  -> IF Len(a.items) = c * r THEN Upd(st, FromFlat(c, r, a.items), Unit) ELSE Rejected(st)
      [] op = "clone_from_toodee" -> IF a.nc = c /\ a.nr = r THEN Upd(st, FromFlat(c, r, a.items), Unit) ELSE Rejected(st)
      [] op = "clone"      -> Same(st, Ids(Flat(g)))       \* an equal, independent array (compared, mutated, dropped)
      \* Clone::clone_from(&mut self, &source): afterwards self equals the source (a.nc x a.nr holding a.items);
      \* what self held before is dropped
      [] op = "clone_from" -> Upd(st, FromFlat(a.nc, a.nr, a.items), Unit)
      [] op = "from_view"  -> IF WindowOK(g, a.s, a.e) THEN Same(st, Ids(Flat(Window(g, a.s, a.e)))) ELSE Rejected(st)
      [] op \in {"into_vec", "into_box"} ->
                              Mk("gone", << >>, NoHandle, st.held \o Flat(g), Ids(Flat(g)))
      [] op = "into_iter"  -> Mk("gone", << >>, [kind |-> "into_iter", items |-> Flat(g), f |-> 0, b |-> 0],
                                 st.held, Drain(c * r))
      [] op = "drop"       -> Mk("gone", << >>, NoHandle, st.held, Unit)
      \* C12: an iterator or view (types without destructor) is created, a.taken items are consumed, and it is
      \* leaked with mem::forget: the array is exactly as before
      [] op = "leak_borrow" -> Same(st, Unit)

LiveOps == {"insert_row", "push_row", "insert_col", "push_col", "remove_row", "pop_row", "remove_col", "pop_col",
            "clear", "swap_dimensions", "reserve", "reserve_exact", "shrink_to_fit", "fill", "set", "set_flat", "swap",
            "swap_rows", "swap_cols", "translate", "flip_rows", "flip_cols", "sort_by_row", "sort_by_col",
            "sort_by_row_key", "sort_row_ord", "sort_by_col_key", "sort_col_ord", "clone_from_slice", "clone_from_toodee",
            "clone", "clone_from", "from_view", "into_vec", "into_box", "into_iter", "drop", "leak_borrow"}

Enabled(st, op) == \/ st.phase \in {"none", "gone"} /\ st.handle.kind = "none" /\ op \in ConstructorOps
                   \/ st.handle.kind # "none" /\ op \in DrainOps \cup {"d_forget"}
                   \/ st.phase = "live" /\ st.handle.kind = "none" /\ op \in LiveOps

Apply(st, op, a) == IF op \in ConstructorOps THEN ApplyCtor(st, op, a)
                    ELSE IF op \in DrainOps THEN ApplyHandle(st, op, a)
                    ELSE ApplyLive(st, op, a)

(***************************************************************************)
(* Observable projection (what the harness reads off the real object).     *)
(***************************************************************************)
Observable(st) == st.phase = "live" /\ st.handle.kind = "none"
Proj(st) == [nc |-> NC(st.grid), nr |-> NR(st.grid), data |-> Flat(st.grid)]

(***************************************************************************)
(* C11 / C12: what may be observed after a caught panic in caller code or  *)
(* after a leaked drain.  `pre` = cells of the array before the call,      *)
(* `supplied` = values passed to the call, `post` = logged observation:    *)
(* [nc, nr, len, data (origins), dup (#cells sharing an element with       *)
(* another cell), dead (#cells holding an already dropped element)].       *)
(***************************************************************************)
ShapeOKProj(p) == /\ p.nc * p.nr = p.len
                  /\ (p.nc = 0 <=> p.nr = 0)
                  /\ Len(p.data) = p.len
\* `valued` = the element type carries a comparable value (FALSE for zero-sized elements, whose cells are
\* only counted)
PostFaultOKv(pre, supplied, post, valued) ==
    /\ post.nc * post.nr = post.len /\ (post.nc = 0 <=> post.nr = 0)
    /\ post.dup = 0 /\ post.dead = 0
    /\ valued => /\ Len(post.data) = post.len
                 /\ \A i \in DOMAIN post.data : post.data[i] \in Range(pre) \cup Range(supplied)
PostFaultOK(pre, supplied, post) == PostFaultOKv(pre, supplied, post, TRUE)
=============================================================================
