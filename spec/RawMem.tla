-------------------------------- MODULE RawMem --------------------------------
(***************************************************************************)
(* Layer B for C05 / C06 / C07 / C11 / C12: the raw-memory algorithms of   *)
(* insert_row, insert_col, remove_col + DrainCol (next / next_back / drop  *)
(* with its DropGuard / leak) and remove_row + Vec::drain, transcribed     *)
(* statement by statement from src/toodee.rs AS REPAIRED (fix: commits     *)
(* a1ccaf4, 1e93fa3, 600abb2), over an explicit memory of slots.           *)
(*                                                                         *)
(* mem   : slot -> element id (0 = uninitialised); a raw copy duplicates   *)
(*         ids bitwise, exactly like ptr::copy                             *)
(* cap   : capacity of the Vec's buffer; any access at or beyond it sets   *)
(*         `oob`                                                           *)
(* vlen  : the Vec's length (the slots the Vec will drop)                  *)
(* nc,nr : the dimension fields of the struct                              *)
(* moved : ids whose ownership went to the caller (drain items)            *)
(* dropped : ids whose destructor ran; dropping one twice sets `ddrop`     *)
(*                                                                         *)
(* Caller-supplied code (iterator len/next/next_back, element Drop) runs   *)
(* at explicit points and may panic there (`fault` = site and ordinal of   *)
(* the call that panics); the iterator may also lie about its length.      *)
(* A drain may be leaked at any stage.  TLC explores every shape, index,   *)
(* crash point, lie and consumption order within the bounds and checks     *)
(* the memory-level invariants at EVERY step, and refinement of the        *)
(* Layer A operators of Grid.tla on normal completion.                     *)
(***************************************************************************)
EXTENDS Grid, TLC

CONSTANTS MaxC, MaxR,     \* shapes 0..MaxC x 0..MaxR
          Slacks,         \* spare capacity beyond the current length, e.g. {0, 2}
          DebugBuilds     \* subset of BOOLEAN: is the debug-only "iterator not exhausted" check compiled in

VARIABLES mem, cap, vlen, nc, nr,      \* the concrete array
          pc, loc,                     \* control point and locals of the running operation
          it, rep,                     \* supplied iterator: remaining items, reported length
          fault, ncalls,               \* which caller call panics; calls made so far per site
          moved, dropped, ddrop, oob,  \* ownership ledger and error flags
          op, dr,                      \* operation descriptor; drain cursor
          g0, supplied, debug, status, \* abstract input, supplied ids, build flavour, outcome
          how                          \* how control came back to the caller (kept after the final drop)
vars == <<mem, cap, vlen, nc, nr, pc, loc, it, rep, fault, ncalls, moved, dropped, ddrop, oob, op, dr, g0, supplied, debug, status, how>>

CapMax == (MaxC + 1) * (MaxR + 1) + 4
HUGE == CapMax + 100                      \* a reported length of usize::MAX
Slots == 0..(CapMax - 1)
NoFault == [site |-> "none", k |-> 0]
Sites == {"len", "next", "drop"}

(* ---- primitive memory operations ---- *)
InCap(a, n) == n = 0 \/ a + n <= cap
\* memmove: reads happen before writes
Copy(m, src, dst, n) == [x \in Slots |-> IF n > 0 /\ x >= dst /\ x < dst + n /\ src + (x - dst) \in Slots THEN m[src + (x - dst)] ELSE m[x]]
RotL(m, a, b, k) == \* rotate the slots [a, b) left by k
    [x \in Slots |-> IF x >= a /\ x < b THEN m[a + ((x - a + k) % (b - a))] ELSE m[x]]
Owned == [i \in 1..vlen |-> mem[i - 1]]                   \* what the Vec would drop / expose
DropIds(s) == /\ dropped' = dropped \cup Range(s)
              /\ ddrop' = (ddrop \/ (\E i \in DOMAIN s : s[i] \in dropped \cup moved \/ s[i] = 0) \/ ~NoDup(s))

(* ---- calling into caller code ---- *)
\* does the call number ncalls[site] (0-based) into `site` panic?
Panics(site) == fault.site = site /\ fault.k = ncalls[site]
Tick(site) == ncalls' = [ncalls EXCEPT ![site] = @ + 1]

(***************************************************************************)
(* Initial states: every shape, every operation with every argument,       *)
(* every fault, every lie, both build flavours, every slack.               *)
(***************************************************************************)
IdsOf(c, r) == [i \in 1..(c * r) |-> i]
FreshIds(c, r, n) == [i \in 1..n |-> c * r + i]
Lies == {"none", "minus1", "plus1", "max"}
Reported(n, lie) == CASE lie = "none" -> n [] lie = "minus1" -> (IF n > 0 THEN n - 1 ELSE 0) [] lie = "plus1" -> n + 1 [] lie = "max" -> HUGE

Init ==
    \E c \in 0..MaxC, r \in 0..MaxR, sl \in Slacks, dbg \in DebugBuilds :
      /\ (c = 0 <=> r = 0)
      /\ mem = [x \in Slots |-> IF x < c * r THEN x + 1 ELSE 0]
      /\ cap = c * r + sl /\ vlen = c * r /\ nc = c /\ nr = r
      /\ g0 = FromFlat(c, r, IdsOf(c, r)) /\ debug = dbg
      /\ moved = {} /\ dropped = {} /\ ddrop = FALSE /\ oob = FALSE /\ status = "running" /\ how = "running"
      /\ ncalls = [s \in Sites |-> 0]
      /\ dr = [lo |-> 0, hi |-> 0, col |-> 0, onc |-> 0, onr |-> 0, kind |-> "none"]
      /\ \/ \E index \in 0..(r + 1), lie \in Lies, n \in (IF c = 0 THEN 0..MaxC ELSE {c}) :     \* insert_row
              /\ op = [name |-> "insert_row", index |-> index, lie |-> lie]
              /\ it = FreshIds(c, r, n) /\ supplied = FreshIds(c, r, n) /\ rep = Reported(n, lie)
              /\ pc = "ir_start" /\ loc = [index |-> index, n |-> 0, start |-> 0, len0 |-> 0, i |-> 0, c0 |-> c, r0 |-> r, src |-> 0, dst |-> 0, j |-> 0]
              /\ \E f \in {NoFault} \cup {[site |-> "len", k |-> 0]} \cup {[site |-> "next", k |-> k] : k \in 0..(MaxC + 1)} : fault = f
         \/ \E index \in 0..(c + 1), lie \in Lies, n \in (IF c = 0 THEN 0..MaxR ELSE {r}) :     \* insert_col
              /\ op = [name |-> "insert_col", index |-> index, lie |-> lie]
              /\ it = FreshIds(c, r, n) /\ supplied = FreshIds(c, r, n) /\ rep = Reported(n, lie)
              /\ pc = "ic_start" /\ loc = [index |-> index, n |-> 0, start |-> 0, len0 |-> 0, i |-> 0, c0 |-> c, r0 |-> r, src |-> 0, dst |-> 0, j |-> 0]
              /\ \E f \in {NoFault} \cup {[site |-> "len", k |-> 0]} \cup {[site |-> "next", k |-> k] : k \in 0..(MaxR + 1)} : fault = f
         \/ \E index \in 0..c, nm \in {"remove_col", "remove_row"} :                            \* removals (index may be one too large)
              /\ op = [name |-> nm, index |-> index, lie |-> "none"]
              /\ it = << >> /\ supplied = << >> /\ rep = 0
              /\ pc = (IF nm = "remove_col" THEN "rc_start" ELSE "rr_start")
              /\ loc = [index |-> index, n |-> 0, start |-> 0, len0 |-> 0, i |-> 0, c0 |-> c, r0 |-> r, src |-> 0, dst |-> 0, j |-> 0]
              /\ \E f \in {NoFault} \cup {[site |-> "drop", k |-> k] : k \in 0..(MaxC + MaxR)} : fault = f

(***************************************************************************)
(* Unwinding out of the operation: the supplied iterator is dropped by the *)
(* caller's frame (its remaining items are dropped), the array is whatever *)
(* the fields say at that moment.                                          *)
(***************************************************************************)
Unwind == /\ status' = "unwound" /\ pc' = "done"
          /\ DropIds(it) /\ it' = << >>
Return == /\ status' = "returned" /\ pc' = "done"
          /\ DropIds(it) /\ it' = << >>

(* ------------------------------ insert_row ------------------------------ *)
IR_Start == /\ UNCHANGED how /\ pc = "ir_start"
            /\ IF loc.index <= nr THEN pc' = "ir_len" /\ UNCHANGED <<status, it, dropped, ddrop>> ELSE Unwind
            /\ UNCHANGED <<mem, cap, vlen, nc, nr, loc, rep, fault, ncalls, moved, oob, op, dr, g0, supplied, debug>>
IR_Len == /\ UNCHANGED how /\ pc = "ir_len" /\ Tick("len")
          /\ IF Panics("len") THEN Unwind /\ UNCHANGED loc
             ELSE IF nr # 0 /\ nc # rep THEN Unwind /\ UNCHANGED loc                 \* assert_eq!(self.num_cols, iter.len())
             ELSE /\ loc' = [loc EXCEPT !.n = IF nr = 0 THEN rep ELSE nc] /\ pc' = "ir_reserve"
                  /\ UNCHANGED <<status, it, dropped, ddrop>>
          /\ UNCHANGED <<mem, cap, vlen, nc, nr, rep, fault, moved, oob, op, dr, g0, supplied, debug>>
IR_Reserve == /\ UNCHANGED how /\ pc = "ir_reserve"
              /\ IF vlen + loc.n > CapMax THEN Unwind /\ UNCHANGED cap                \* capacity overflow panic
                 ELSE /\ cap' = Max2(cap, vlen + loc.n) /\ pc' = "ir_open" /\ UNCHANGED <<status, it, dropped, ddrop>>
              /\ UNCHANGED <<mem, vlen, nc, nr, loc, rep, fault, ncalls, moved, oob, op, dr, g0, supplied, debug>>
IR_Open == /\ UNCHANGED how /\ pc = "ir_open"
           /\ LET start == loc.index * loc.n  len0 == vlen IN
              /\ loc' = [loc EXCEPT !.start = start, !.len0 = len0, !.i = 0]
              /\ vlen' = start                                                       \* set_len(start)
              /\ nr' = loc.index /\ nc' = (IF loc.index = 0 THEN 0 ELSE nc)          \* dimensions follow the truncated Vec
              /\ oob' = (oob \/ ~InCap(start, len0 - start) \/ ~InCap(start + loc.n, len0 - start))
              /\ mem' = Copy(mem, start, start + loc.n, len0 - start)
           /\ pc' = "ir_fill"
           /\ UNCHANGED <<cap, it, rep, fault, ncalls, moved, dropped, ddrop, op, dr, g0, supplied, debug, status>>
IR_Fill == /\ UNCHANGED how /\ pc = "ir_fill"
           /\ IF loc.i < loc.n
              THEN /\ Tick("next")
                   /\ IF Panics("next") \/ it = << >> THEN Unwind /\ UNCHANGED <<mem, loc, oob>>   \* panic in next(), or "unexpected iterator length"
                      ELSE /\ oob' = (oob \/ ~InCap(loc.start + loc.i, 1))
                           /\ mem' = [mem EXCEPT ![loc.start + loc.i] = Head(it)]
                           /\ it' = Tail(it) /\ loc' = [loc EXCEPT !.i = @ + 1]
                           /\ UNCHANGED <<pc, status, dropped, ddrop>>
              ELSE /\ pc' = "ir_debug" /\ UNCHANGED <<mem, loc, it, oob, ncalls, status, dropped, ddrop>>
           /\ UNCHANGED <<cap, vlen, nc, nr, rep, fault, moved, op, dr, g0, supplied, debug>>
IR_Debug == /\ UNCHANGED how /\ pc = "ir_debug"
            /\ IF debug
               THEN /\ Tick("next")
                    /\ IF Panics("next") THEN Unwind
                       ELSE IF it # << >>                                        \* debug_assert!(iter.next().is_none()) fails:
                            THEN /\ status' = "unwound" /\ pc' = "done"           \* the extra element is dropped, then the rest of the iterator
                                 /\ DropIds(it) /\ it' = << >>
                            ELSE pc' = "ir_commit" /\ UNCHANGED <<status, it, dropped, ddrop>>
               ELSE pc' = "ir_commit" /\ UNCHANGED <<status, it, dropped, ddrop, ncalls>>
            /\ UNCHANGED <<mem, cap, vlen, nc, nr, loc, rep, fault, moved, oob, op, dr, g0, supplied, debug>>
IR_Commit == /\ UNCHANGED how /\ pc = "ir_commit"
             /\ vlen' = loc.len0 + loc.n
             /\ IF loc.n > 0 THEN nc' = loc.n /\ nr' = loc.r0 + 1 ELSE UNCHANGED <<nc, nr>>
             /\ Return
             /\ UNCHANGED <<mem, cap, loc, rep, fault, ncalls, moved, oob, op, dr, g0, supplied, debug>>

(* ------------------------------ insert_col ------------------------------ *)
\* loc.n = num_rows (local), loc.len0 = old_len, loc.src / loc.dst = read_p / write_p as slot offsets, loc.j = rows still to do
IC_Start == /\ UNCHANGED how /\ pc = "ic_start"
            /\ IF loc.index <= nc THEN pc' = "ic_len" /\ UNCHANGED <<status, it, dropped, ddrop>> ELSE Unwind
            /\ UNCHANGED <<mem, cap, vlen, nc, nr, loc, rep, fault, ncalls, moved, oob, op, dr, g0, supplied, debug>>
IC_Len == /\ UNCHANGED how /\ pc = "ic_len" /\ Tick("len")
          /\ IF Panics("len") THEN Unwind /\ UNCHANGED loc
             ELSE IF nc # 0 /\ nr # rep THEN Unwind /\ UNCHANGED loc
             ELSE /\ loc' = [loc EXCEPT !.n = IF nc = 0 THEN rep ELSE nr] /\ pc' = "ic_reserve"
                  /\ UNCHANGED <<status, it, dropped, ddrop>>
          /\ UNCHANGED <<mem, cap, vlen, nc, nr, rep, fault, moved, oob, op, dr, g0, supplied, debug>>
IC_Reserve == /\ UNCHANGED how /\ pc = "ic_reserve"
              /\ IF vlen + loc.n > CapMax THEN Unwind /\ UNCHANGED cap
                 ELSE /\ cap' = Max2(cap, vlen + loc.n) /\ pc' = "ic_open" /\ UNCHANGED <<status, it, dropped, ddrop>>
              /\ UNCHANGED <<mem, vlen, nc, nr, loc, rep, fault, ncalls, moved, oob, op, dr, g0, supplied, debug>>
IC_Open == /\ UNCHANGED how /\ pc = "ic_open"
           /\ LET old == vlen  new == vlen + loc.n  suf == loc.c0 - loc.index IN
              /\ vlen' = 0 /\ nc' = 0 /\ nr' = 0                                   \* set_len(0); the dimensions say "empty" too
              /\ IF loc.n > 0
                 THEN /\ oob' = (oob \/ ~InCap(old - suf, suf) \/ ~InCap(new - suf, suf))
                      /\ mem' = Copy(mem, old - suf, new - suf, suf)               \* suffix of the last row
                      /\ loc' = [loc EXCEPT !.len0 = old, !.src = old - suf, !.dst = new - suf - 1, !.j = loc.n - 1, !.i = 0]
                      /\ pc' = "ic_write"
                 ELSE /\ loc' = [loc EXCEPT !.len0 = old] /\ pc' = "ic_debug" /\ UNCHANGED <<mem, oob>>
           /\ UNCHANGED <<cap, it, rep, fault, ncalls, moved, dropped, ddrop, op, dr, g0, supplied, debug, status>>
\* ptr::write(write_p, next_or_panic(rev_iter)): the reversed iterator yields the LAST remaining item
IC_Write == /\ UNCHANGED how /\ pc = "ic_write" /\ Tick("next")
            /\ IF Panics("next") \/ it = << >> THEN Unwind /\ UNCHANGED <<mem, loc, oob>>
               ELSE /\ oob' = (oob \/ ~InCap(loc.dst, 1))
                    /\ mem' = [mem EXCEPT ![loc.dst] = it[Len(it)]]
                    /\ it' = SubSeq(it, 1, Len(it) - 1)
                    /\ pc' = (IF loc.j > 0 THEN "ic_block" ELSE "ic_prefix")
                    /\ UNCHANGED <<loc, status, dropped, ddrop>>
            /\ UNCHANGED <<cap, vlen, nc, nr, rep, fault, moved, op, dr, g0, supplied, debug>>
\* copy suffix and prefix of adjacent rows as a single block of num_cols cells
IC_Block == /\ UNCHANGED how /\ pc = "ic_block"
            /\ LET src == loc.src - loc.c0  dst == loc.dst - loc.c0 IN
               /\ oob' = (oob \/ ~InCap(src, loc.c0) \/ ~InCap(dst, loc.c0) \/ loc.src < loc.c0 \/ loc.dst < loc.c0)
               /\ mem' = Copy(mem, Max2(src, 0), Max2(dst, 0), loc.c0)
               /\ loc' = [loc EXCEPT !.src = Max2(src, 0), !.dst = Max2(dst, 0) - 1, !.j = @ - 1]
            /\ pc' = "ic_write"
            /\ UNCHANGED <<cap, vlen, nc, nr, it, rep, fault, ncalls, moved, dropped, ddrop, op, dr, g0, supplied, debug, status>>
IC_Prefix == /\ UNCHANGED how /\ pc = "ic_prefix"
             /\ LET src == loc.src - loc.index  dst == loc.dst - loc.index IN
                /\ oob' = (oob \/ ~InCap(src, loc.index) \/ ~InCap(dst, loc.index) \/ loc.src < loc.index \/ loc.dst < loc.index)
                /\ mem' = Copy(mem, Max2(src, 0), Max2(dst, 0), loc.index)
             /\ pc' = "ic_debug"
             /\ UNCHANGED <<cap, vlen, nc, nr, loc, it, rep, fault, ncalls, moved, dropped, ddrop, op, dr, g0, supplied, debug, status>>
IC_Debug == /\ UNCHANGED how /\ pc = "ic_debug"
            /\ IF debug
               THEN /\ Tick("next")
                    /\ IF Panics("next") THEN Unwind
                       ELSE IF it # << >> THEN status' = "unwound" /\ pc' = "done" /\ DropIds(it) /\ it' = << >>
                            ELSE pc' = "ic_commit" /\ UNCHANGED <<status, it, dropped, ddrop>>
               ELSE pc' = "ic_commit" /\ UNCHANGED <<status, it, dropped, ddrop, ncalls>>
            /\ UNCHANGED <<mem, cap, vlen, nc, nr, loc, rep, fault, moved, oob, op, dr, g0, supplied, debug>>
IC_Commit == /\ UNCHANGED how /\ pc = "ic_commit"
             /\ vlen' = loc.len0 + loc.n
             /\ IF loc.n > 0 THEN nc' = loc.c0 + 1 /\ nr' = loc.n ELSE UNCHANGED <<nc, nr>>
             /\ Return
             /\ UNCHANGED <<mem, cap, loc, rep, fault, ncalls, moved, oob, op, dr, g0, supplied, debug>>

(* --------------------- remove_col + DrainCol --------------------- *)
RC_Start == /\ UNCHANGED how /\ pc = "rc_start"
            /\ IF loc.index < nc
               THEN /\ vlen' = 0 /\ nc' = 0 /\ nr' = 0                             \* set_len(0) and zeroed dimensions while the drain lives
                    /\ dr' = [lo |-> 0, hi |-> loc.r0, col |-> loc.index, onc |-> loc.c0, onr |-> loc.r0, kind |-> "col"]
                    /\ pc' = "drain" /\ UNCHANGED <<status, it, dropped, ddrop>>
               ELSE Unwind /\ UNCHANGED <<vlen, nc, nr, dr>>
            /\ UNCHANGED <<mem, cap, loc, rep, fault, ncalls, moved, oob, op, g0, supplied, debug>>
\* slot of the drain's element number k (0-based)
DSlot(k) == IF dr.kind = "col" THEN k * dr.onc + dr.col ELSE dr.onc + k           \* for "row": dr.onc holds the first slot of the range
D_Next == /\ UNCHANGED how /\ pc = "drain" /\ dr.lo < dr.hi
          /\ oob' = (oob \/ ~InCap(DSlot(dr.lo), 1))
          /\ moved' = moved \cup {mem[DSlot(dr.lo)]}                               \* ptr::read: ownership goes to the caller
          /\ dr' = [dr EXCEPT !.lo = @ + 1]
          /\ UNCHANGED <<mem, cap, vlen, nc, nr, pc, loc, it, rep, fault, ncalls, dropped, ddrop, op, g0, supplied, debug, status>>
D_NextBack == /\ UNCHANGED how /\ pc = "drain" /\ dr.lo < dr.hi
              /\ oob' = (oob \/ ~InCap(DSlot(dr.hi - 1), 1))
              /\ moved' = moved \cup {mem[DSlot(dr.hi - 1)]}
              /\ dr' = [dr EXCEPT !.hi = @ - 1]
              /\ UNCHANGED <<mem, cap, vlen, nc, nr, pc, loc, it, rep, fault, ncalls, dropped, ddrop, op, g0, supplied, debug, status>>
\* mem::forget(drain): its destructor never runs
D_Forget == /\ UNCHANGED how /\ pc = "drain" /\ status' = "leaked" /\ pc' = "done"
            /\ UNCHANGED <<mem, cap, vlen, nc, nr, loc, it, rep, fault, ncalls, moved, dropped, ddrop, oob, op, dr, g0, supplied, debug>>
D_Drop == /\ UNCHANGED how /\ pc = "drain" /\ pc' = "dd_loop"
          /\ UNCHANGED <<mem, cap, vlen, nc, nr, loc, it, rep, fault, ncalls, moved, dropped, ddrop, oob, op, dr, g0, supplied, debug, status>>
\* `while let Some(item) = self.next() { let guard = DropGuard(self); drop(item); mem::forget(guard); }`
DD_Loop == /\ UNCHANGED how /\ pc = "dd_loop"
           /\ IF dr.lo < dr.hi
              THEN /\ Tick("drop")
                   /\ dr' = [dr EXCEPT !.lo = @ + 1]
                   /\ DropIds(<<mem[DSlot(dr.lo)]>>)                               \* the destructor runs (and may panic)
                   /\ pc' = (IF Panics("drop") THEN "dd_guard" ELSE "dd_loop")
              ELSE pc' = "dd_restore" /\ UNCHANGED <<dr, ncalls, dropped, ddrop>>
           /\ UNCHANGED <<mem, cap, vlen, nc, nr, loc, it, rep, fault, moved, oob, op, g0, supplied, debug, status>>
\* the guard, run while unwinding: drops what is left of the line (a second panic would abort), then restores
DD_Guard == /\ UNCHANGED how /\ pc = "dd_guard"
            /\ DropIds([k \in 1..(dr.hi - dr.lo) |-> mem[DSlot(dr.lo + k - 1)]])
            /\ dr' = [dr EXCEPT !.lo = dr.hi]
            /\ loc' = [loc EXCEPT !.j = 1]                                         \* remember: we are unwinding
            /\ pc' = "dd_restore"
            /\ UNCHANGED <<mem, cap, vlen, nc, nr, it, rep, fault, ncalls, moved, oob, op, g0, supplied, debug, status>>
\* move the un-drained cells back into place and restore length and dimensions
DD_Restore ==
    /\ UNCHANGED how
    /\ pc = "dd_restore"
    /\ IF dr.kind = "col"
       THEN LET onc == dr.onc  onr == dr.onr  col == dr.col  newc == onc - 1
                \* for _ in 1..num_rows { copy(src, dest, new_cols); src += orig_cols; dest += new_cols }
                RECURSIVE Compact(_, _, _, _)
                Compact(m, k, src, dst) == IF k >= onr THEN [m |-> m, src |-> src, dst |-> dst]
                                           ELSE Compact(Copy(m, src, dst, newc), k + 1, src + onc, dst + newc)
                c1 == Compact(mem, 1, col + 1, col)
            IN /\ mem' = Copy(c1.m, c1.src, c1.dst, onc - col - 1)
               /\ oob' = (oob \/ ((c1.src + (onc - col - 1) > cap) /\ ((onc - col - 1) > 0)))
               /\ nc' = newc /\ nr' = (IF newc = 0 THEN 0 ELSE onr)
               /\ vlen' = newc * (IF newc = 0 THEN 0 ELSE onr)
       ELSE \* Vec::Drain's destructor: the tail behind the drained range is empty; set_len(start)
            /\ vlen' = dr.onc /\ UNCHANGED <<mem, oob, nc, nr>>
    /\ status' = (IF loc.j = 1 THEN "unwound" ELSE "returned") /\ pc' = "done"
    /\ UNCHANGED <<cap, loc, it, rep, fault, ncalls, moved, dropped, ddrop, op, dr, g0, supplied, debug>>

(* --------------------- remove_row + Vec::drain --------------------- *)
RR_Start == /\ UNCHANGED how /\ pc = "rr_start"
            /\ IF loc.index < nr
               THEN LET start == loc.index * nc  newlen == vlen - nc IN
                    /\ mem' = RotL(mem, start, vlen, nc)                           \* the row goes to the tail
                    /\ vlen' = newlen                                              \* Vec::drain(newlen..) truncates up front
                    /\ nr' = nr - 1 /\ nc' = (IF nr - 1 = 0 THEN 0 ELSE nc)
                    /\ dr' = [lo |-> 0, hi |-> nc, col |-> 0, onc |-> newlen, onr |-> 0, kind |-> "row"]
                    /\ pc' = "drain" /\ UNCHANGED <<status, it, dropped, ddrop>>
               ELSE Unwind /\ UNCHANGED <<mem, vlen, nc, nr, dr>>
            /\ UNCHANGED <<cap, loc, rep, fault, ncalls, moved, oob, op, g0, supplied, debug>>

(* ---- afterwards: the caller eventually drops the array ---- *)
FinalDrop == /\ pc = "done" /\ status \in {"returned", "unwound", "leaked"}
             /\ DropIds(Owned)
             /\ status' = "dropped" /\ vlen' = 0 /\ how' = status
             /\ UNCHANGED <<mem, cap, nc, nr, pc, loc, it, rep, fault, ncalls, moved, oob, op, dr, g0, supplied, debug>>

Lib == \/ IR_Start \/ IR_Len \/ IR_Reserve \/ IR_Open \/ IR_Fill \/ IR_Debug \/ IR_Commit
        \/ IC_Start \/ IC_Len \/ IC_Reserve \/ IC_Open \/ IC_Write \/ IC_Block \/ IC_Prefix \/ IC_Debug \/ IC_Commit
        \/ RC_Start \/ RR_Start \/ D_Next \/ D_NextBack \/ D_Forget \/ D_Drop \/ DD_Loop \/ DD_Guard \/ DD_Restore
Next == Lib \/ FinalDrop
Spec == Init /\ [][Next]_vars

(***************************************************************************)
(* Invariants.                                                             *)
(***************************************************************************)
\* every raw access stays inside the buffer (C06 / C07: the 0.6.0 heap overflow class)
M_InBounds == ~oob
\* nothing is ever dropped twice, nothing uninitialised or moved-out is dropped (C05, C11, C12)
M_NoDoubleDrop == ~ddrop
\* whenever the array is accessible to the caller again - normal return, caught panic, leaked drain -
\* the dimensions agree with the Vec (C01 invariant; C11 / C12)
Accessible == status \in {"returned", "unwound", "leaked"}
M_Shape == Accessible => vlen = nc * nr /\ (nc = 0 <=> nr = 0)
\* ... and the Vec owns pairwise distinct, initialised, live elements
M_Owned == Accessible => /\ NoDup(Owned)
                         /\ \A i \in DOMAIN Owned : Owned[i] # 0 /\ Owned[i] \notin moved \cup dropped
\* every reachable cell was in the array before or was supplied (C11)
M_Provenance == Accessible => \A i \in DOMAIN Owned : Owned[i] \in Range(Flat(g0)) \cup Range(supplied)
\* on normal completion with an honest iterator: Layer B computes what Layer A says (C06 / C07)
Honest == op.lie = "none"
M_Refines ==
    (status = "returned" /\ Honest) =>
       LET now == FromFlat(nc, nr, Owned) IN
       CASE op.name = "insert_row" -> now = InsertRow(g0, op.index, supplied)
         [] op.name = "insert_col" -> now = InsertCol(g0, op.index, supplied)
         [] op.name = "remove_col" -> now = RemoveCol(g0, op.index)
         [] op.name = "remove_row" -> now = RemoveRow(g0, op.index)
\* a rejected call (bad index / wrong length; honest iterator, no fault) leaves the array exactly as it was
M_RejectUnchanged == (status = "unwound" /\ fault = NoFault /\ Honest) => FromFlat(nc, nr, Owned) = g0
\* the drain yields exactly the removed line, front to back / back to front (C07)
M_DrainLine == (pc = "drain" /\ dr.kind = "col") =>
                  \A k \in dr.lo..(dr.hi - 1) : mem[DSlot(k)] = ColOf(g0, op.index)[k + 1]
M_DrainRow  == (pc = "drain" /\ dr.kind = "row") =>
                  \A k \in dr.lo..(dr.hi - 1) : mem[DSlot(k)] = RowOf(g0, op.index)[k + 1]
\* at the very end nothing was both handed over and dropped, and on fault-free, leak-free, honest runs every
\* element that ever existed was dropped or handed over - exactly once, given M_NoDoubleDrop (C05)
M_ExactlyOnce == status = "dropped" =>
                    /\ moved \cap dropped = {}
                    /\ (how = "returned" /\ fault = NoFault /\ Honest)
                         => \A id \in Range(Flat(g0)) \cup Range(supplied) : id \in moved \cup dropped
=============================================================================
