-------------------------------- MODULE Shape --------------------------------
(***************************************************************************)
(* Dimension-only projection of the history machine, for UNBOUNDED         *)
(* dimensions: C01's shape invariant is inductive.  Checked with Apalache  *)
(* (Init => Inv, and Inv /\ Next => Inv').                                 *)
(***************************************************************************)
EXTENDS Integers

VARIABLES
    \* @type: Int;
    nc,
    \* @type: Int;
    nr,
    \* @type: Int;
    len,
    \* @type: Str;
    pending,
    \* @type: Int;
    onc,
    \* @type: Int;
    onr

Inv == /\ nc >= 0 /\ nr >= 0 /\ len >= 0
       /\ len = nc * nr
       /\ (nc = 0 <=> nr = 0)
       /\ pending \in {"none", "col", "row"}
       /\ (pending = "col" => nc = 0 /\ nr = 0 /\ onc >= 1 /\ onr >= 1)
       /\ (pending = "none" => onc = 0 /\ onr = 0)
       /\ (pending = "row" => onc = 0 /\ onr = 0)

Init == nc = 0 /\ nr = 0 /\ len = 0 /\ pending = "none" /\ onc = 0 /\ onr = 0
\* any state satisfying the invariant (for the inductive step)
IndInit == /\ nc \in Int /\ nr \in Int /\ len \in Int /\ onc \in Int /\ onr \in Int
           /\ pending \in {"none", "col", "row"}
           /\ Inv

Idle == pending = "none"
\* insert_row / push_row of n cells at a valid index
InsertRow == /\ Idle
             /\ \E n \in Int : /\ n >= 0 /\ (nr > 0 => n = nc)
                /\ IF n = 0 THEN UNCHANGED <<nc, nr, len>>
                   ELSE nc' = n /\ nr' = nr + 1 /\ len' = len + n
             /\ UNCHANGED <<pending, onc, onr>>
InsertCol == /\ Idle
             /\ \E n \in Int : /\ n >= 0 /\ (nc > 0 => n = nr)
                /\ IF n = 0 THEN UNCHANGED <<nc, nr, len>>
                   ELSE nr' = n /\ nc' = nc + 1 /\ len' = len + n
             /\ UNCHANGED <<pending, onc, onr>>
\* a panic inside insert_row at row index i: the array keeps its first i rows
PanicInsertRow == /\ Idle /\ \E i \in Int : /\ 0 <= i /\ i <= nr
                     /\ nr' = i /\ nc' = (IF i = 0 THEN 0 ELSE nc) /\ len' = i * (IF i = 0 THEN 0 ELSE nc)
                  /\ UNCHANGED <<pending, onc, onr>>
PanicInsertCol == /\ Idle /\ nc' = 0 /\ nr' = 0 /\ len' = 0 /\ UNCHANGED <<pending, onc, onr>>
\* remove_row: the row is moved to the tail and drained; the Vec is truncated at once
RemoveRow == /\ Idle /\ nr >= 1
             /\ nr' = nr - 1 /\ nc' = (IF nr - 1 = 0 THEN 0 ELSE nc) /\ len' = len - nc
             /\ pending' = "row" /\ UNCHANGED <<onc, onr>>
\* remove_col: the array is empty while the drain is outstanding
RemoveCol == /\ Idle /\ nc >= 1
             /\ onc' = nc /\ onr' = nr /\ nc' = 0 /\ nr' = 0 /\ len' = 0 /\ pending' = "col"
\* the drain is dropped (consumed to any extent) - or leaked
DrainDone == \/ /\ pending = "row" /\ pending' = "none" /\ UNCHANGED <<nc, nr, len, onc, onr>>
             \/ /\ pending = "col" /\ pending' = "none"
                /\ nc' = onc - 1 /\ nr' = (IF onc - 1 = 0 THEN 0 ELSE onr) /\ len' = (onc - 1) * (IF onc - 1 = 0 THEN 0 ELSE onr)
                /\ onc' = 0 /\ onr' = 0
DrainLeaked == /\ pending \in {"row", "col"} /\ pending' = "none" /\ onc' = 0 /\ onr' = 0 /\ UNCHANGED <<nc, nr, len>>
Clear == Idle /\ nc' = 0 /\ nr' = 0 /\ len' = 0 /\ UNCHANGED <<pending, onc, onr>>
SwapDims == Idle /\ nc' = nr /\ nr' = nc /\ UNCHANGED <<len, pending, onc, onr>>

Next == InsertRow \/ InsertCol \/ PanicInsertRow \/ PanicInsertCol \/ RemoveRow \/ RemoveCol \/ DrainDone \/ DrainLeaked \/ Clear \/ SwapDims
=============================================================================
