------------------------------- MODULE AccessMC -------------------------------
(***************************************************************************)
(* Model-checking wrapper for Access.tla.  States are (root shape, root    *)
(* kind, window stack, number of mutations so far); PushView transitions   *)
(* build every nesting of windows; every call of the enabled groups with   *)
(* every argument value is a transition, checked against the frame /       *)
(* rearrangement invariants and emitted as a self-contained replay case.   *)
(***************************************************************************)
EXTENDS Access, Json, SequencesExt

CONSTANTS Shapes,      \* set of root shapes, each encoded as 10*nc + nr
          RootKinds,   \* subset of {"owned", "plain", "torus", "plainv", "slice_v", "slice_m"}; "plain" / "torus" / "plainv":
                       \* third-party implementors (required methods only) - forwarding to an array; the same with index
                       \* operators that wrap around instead of panicking; forwarding to a window narrower than its parent
                       \* (rows not contiguous)
          Depth,       \* maximal nesting depth of windows
          MutDepth,    \* maximal number of mutating calls on one receiver
          Groups,      \* subset of {"read", "write", "view", "prim", "copy", "move", "sort", "sortbig"}
          BigArgs      \* set of Big codes tried for every coordinate argument

VARIABLES root, rkind, stack, calls, nmut, last
vars == <<root, rkind, stack, calls, nmut, last>>

\* unique ids, all with key 0: cell i (row-major, 1-based) holds 3*i
MkRoot(sh) == FromFlat(sh[1], sh[2], [i \in 1..(sh[1] * sh[2]) |-> 3 * i])
\* same shape, but the cells of the receiver's line `line` (by = "row"/"col") carry the keys `pat`
WithKeys(rt, st, by, line, pat) ==
    LET a == Abs(rt, st) IN
    [y \in 1..NR(rt) |-> [x \in 1..NC(rt) |->
        IF by = "row" /\ y = a.s[2] + line + 1 /\ x > a.s[1] /\ x <= a.s[1] + a.z[1] THEN rt[y][x] + pat[x - a.s[1]]
        ELSE IF by = "col" /\ x = a.s[1] + line + 1 /\ y > a.s[2] /\ y <= a.s[2] + a.z[2] THEN rt[y][x] + pat[y - a.s[2]]
        ELSE rt[y][x]]]

RootMutable == rkind \in {"owned", "plain", "torus", "plainv", "slice_m"}
LeafMutable == RootMutable /\ Mutable(stack)
Z  == Abs(root, stack).z          \* size of the receiver
WC == Z[1]
WR == Z[2]
Ix(n)  == 0..(n + 1) \cup BigArgs
Ixs(n) == 0..(n + 1)
NoArg == [z |-> 0]
Fresh == 250                      \* value written by write ops: distinct from every root id (multiples of 3 up to 243) and
                                  \* small enough for the one-byte element type

Case(rt, cs) == [fam |-> "acc", root |-> [kind |-> rkind, nc |-> NC(rt), nr |-> NR(rt), ids |-> Flat(rt)],
                 stack |-> stack, calls |-> cs]
Emit(rt, cs) == PrintT(<<"CASE", ToJson(Case(rt, cs))>>)

\* the initial root of this behaviour (calls record the root after each call; the first root is MkRoot)
Root0 == MkRoot(Dims(root))

Do(op, a, mutating) ==
    LET r == Apply(root, stack, op, a)
        cs == Append(calls, [op |-> op, a |-> a, x |-> [res |-> r.res, root |-> Flat(r.root)]])
    IN \* the properties of the semantics are asserted on EVERY transition (the VIEW hides the cell contents, so an
       \* invariant would only see the first representative of each (shape, stack, nmut) class)
       /\ Assert(IsGrid(r.root) /\ Dims(r.root) = Dims(root), <<"RootShape", op, a>>)
       /\ Assert(FrameOK(root, stack, r.root), <<"Frame (C04)", stack, op, a>>)
       /\ Assert(r.res = Panic => r.root = root, <<"Reject", op, a>>)
       /\ Assert(op \in {"swap", "swap_rows", "swap_cols", "row_pair_swap", "translate", "flip_rows", "flip_cols"}
                   => IsRearrangement(root, r.root), <<"Rearrange", op, a>>)
       /\ root' = r.root
       /\ calls' = cs
       /\ nmut' = IF mutating THEN nmut + 1 ELSE nmut
       /\ last' = [op |-> op, pre |-> root, res |-> r.res]
       /\ UNCHANGED <<rkind, stack>>
       /\ Emit(Root0, cs)

(* ---- building nested windows (not emitted; exercised by the "view" group) ---- *)
PushView == /\ Len(stack) < Depth /\ nmut = 0
            /\ \E k \in {"v", "m"}, sc \in 0..WC, ec \in 0..WC, sr \in 0..WR, er \in 0..WR :
                 /\ sc <= ec /\ sr <= er
                 /\ (k = "m" => LeafMutable)
                 /\ stack' = Append(stack, [k |-> k, s |-> <<sc, sr>>, e |-> <<ec, er>>])
            /\ last' = [op |-> "push", pre |-> root, res |-> Unit]
            /\ UNCHANGED <<root, rkind, calls, nmut>>

(* ---- C02 ---- *)
GRead == /\ "read" \in Groups /\ nmut = 0
         /\ \/ \E op \in {"idx_coord", "idx_row", "col_idx"}, c \in Ix(WC), r \in Ix(WR) : Do(op, [c |-> c, r |-> r], FALSE)
            \/ \E c \in 0..(WC - 1), r \in 0..(WR - 1) : Do("get_unchecked", [c |-> c, r |-> r], FALSE)
            \/ \E r \in 0..(WR - 1) : Do("get_unchecked_row", [r |-> r], FALSE)
            \/ \E r \in Ix(WR) : Do("row", [r |-> r], FALSE)
            \/ \E c \in Ix(WC) : Do("col", [c |-> c], FALSE)
            \/ Do("size", NoArg, FALSE)
            \/ Do("debug", NoArg, FALSE)
            \/ LeafMutable /\ Do("as_view", NoArg, FALSE)      \* the shared view made from a mutable one addresses the same cells
GWrite == /\ "write" \in Groups /\ LeafMutable /\ nmut < MutDepth
          /\ \/ \E op \in {"idxm_coord", "idxm_row", "colm_idxm", "colm_idx"}, c \in Ix(WC), r \in Ix(WR) :
                   Do(op, [c |-> c, r |-> r, v |-> Fresh], TRUE)
             \/ \E op \in {"get_unchecked_mut", "get_unchecked_row_mut"}, c \in 0..(WC - 1), r \in 0..(WR - 1) :
                   Do(op, [c |-> c, r |-> r, v |-> Fresh], TRUE)

(* ---- C03 ---- *)
GView == /\ "view" \in Groups /\ nmut = 0
         /\ \/ Do("debug", NoArg, FALSE)
            \/ LeafMutable /\ Do("as_view", NoArg, FALSE)
            \/ \E sc \in Ixs(WC), ec \in Ixs(WC), sr \in Ixs(WR), er \in Ixs(WR) :
                  \/ Do("view", [s |-> <<sc, sr>>, e |-> <<ec, er>>], FALSE)
                  \/ LeafMutable /\ Do("view_mut", [s |-> <<sc, sr>>, e |-> <<ec, er>>, v |-> Fresh], TRUE)
            \/ \E b \in BigArgs, pos \in 1..4, lo \in {0, 1}, op \in {"view", "view_mut"} :
                  /\ (op = "view_mut" => LeafMutable)
                  /\ LET base == IF lo = 0 THEN <<0, 0, WC, WR>> ELSE <<WC, WR, WC, WR>>
                         q == [base EXCEPT ![pos] = b]
                     IN Do(op, [s |-> <<q[1], q[2]>>, e |-> <<q[3], q[4]>>, v |-> Fresh], op = "view_mut")

(* ---- C13 (and the iteration writes of C04) ---- *)
GPrim == /\ "prim" \in Groups /\ LeafMutable /\ nmut < MutDepth
         /\ \/ Do("fill", [v |-> Fresh], TRUE)
            \/ \E c1 \in Ix(WC), c2 \in Ix(WC) : Do("swap_cols", [c1 |-> c1, c2 |-> c2], TRUE)
            \/ \E r1 \in Ix(WR), r2 \in Ix(WR), op \in {"swap_rows", "row_pair_swap"} : Do(op, [r1 |-> r1, r2 |-> r2], TRUE)
            \/ \E c1 \in Ixs(WC), r1 \in Ixs(WR), c2 \in Ixs(WC), r2 \in Ixs(WR) :
                  Do("swap", [c1 |-> c1, r1 |-> r1, c2 |-> c2, r2 |-> r2], TRUE)
            \/ \E b \in BigArgs, pos \in 1..4 :
                  LET q == [<<0, 0, 0, 0>> EXCEPT ![pos] = b] IN
                  Do("swap", [c1 |-> q[1], r1 |-> q[2], c2 |-> q[3], r2 |-> q[4]], TRUE)
            \/ \E rev \in BOOLEAN, op \in {"write_rows_mut", "write_cells_mut"} : Do(op, [v |-> Fresh, rev |-> rev], TRUE)
            \/ \E rev \in BOOLEAN, c \in Ix(WC) : Do("write_col_mut", [c |-> c, v |-> Fresh, rev |-> rev], TRUE)

(* ---- C14 ---- *)
SrcVals(n) == [i \in 1..n |-> 500 + i]
GCopy == /\ "copy" \in Groups /\ LeafMutable /\ nmut < MutDepth
         /\ \/ \E op \in {"copy_from_slice", "clone_from_slice"}, n \in {WC * WR, WC * WR + 1} \cup (IF WC * WR > 0 THEN {WC * WR - 1} ELSE {}) :
                  Do(op, [src |-> SrcVals(n)], TRUE)
            \/ \E op \in {"copy_from_toodee", "clone_from_toodee"}, sk \in {"owned", "view", "strided"},
                  snc \in {WC, WC + 1} \cup (IF WC > 0 THEN {WC - 1} ELSE {}),
                  snr \in {WR, WR + 1} \cup (IF WR > 0 THEN {WR - 1} ELSE {}) :
                  /\ (snc = 0 <=> snr = 0)
                  /\ Do(op, [sk |-> sk, snc |-> snc, snr |-> snr, src |-> SrcVals(snc * snr)], TRUE)
            \* a third-party SOURCE that reports a width but no rows (the traits do not force empties to be (0, 0)): its
            \* size differs from that of every receiver of the library's own types
            \/ \E op \in {"copy_from_toodee", "clone_from_toodee"}, snc \in 1..2 :
                  Do(op, [sk |-> "lines", snc |-> snc, snr |-> 0, src |-> << >>], TRUE)
            \/ \E tc \in 0..WC, tr \in 0..WR, bc \in 0..WC, br \in 0..WR, dc \in Ixs(WC), dr \in Ixs(WR) :
                  /\ tc <= bc /\ tr <= br
                  /\ Do("copy_within", [tl |-> <<tc, tr>>, br |-> <<bc, br>>, d |-> <<dc, dr>>], TRUE)
            \/ \E q \in { <<0, 0, WC + 1, WR, 0, 0>>, <<0, 0, WC, WR + 1, 0, 0>>, <<1, 0, 0, WR, 0, 0>>, <<0, 1, WC, 0, 0, 0>> } :
                  Do("copy_within", [tl |-> <<q[1], q[2]>>, br |-> <<q[3], q[4]>>, d |-> <<q[5], q[6]>>], TRUE)
            \/ \E b \in BigArgs, pos \in 1..6 :
                  LET q == [<<0, 0, 0, 0, 0, 0>> EXCEPT ![pos] = b] IN
                  Do("copy_within", [tl |-> <<q[1], q[2]>>, br |-> <<q[3], q[4]>>, d |-> <<q[5], q[6]>>], TRUE)

(* ---- C15 ---- *)
GMove == /\ "move" \in Groups /\ LeafMutable /\ nmut < MutDepth
         /\ \/ \E mc \in Ix(WC), mr \in Ix(WR) : Do("translate", [mc |-> mc, mr |-> mr], TRUE)
            \/ \E op \in {"flip_rows", "flip_cols"} : Do(op, NoArg, TRUE)

(* ---- C16 / C17 ---- *)
SortVariants == { [by |-> "row", stable |-> TRUE,  form |-> "cmp"], [by |-> "row", stable |-> FALSE, form |-> "cmp"],
                  [by |-> "row", stable |-> TRUE,  form |-> "key"], [by |-> "row", stable |-> FALSE, form |-> "key"],
                  [by |-> "row", stable |-> TRUE,  form |-> "ord"], [by |-> "row", stable |-> FALSE, form |-> "ord"],
                  [by |-> "col", stable |-> TRUE,  form |-> "cmp"], [by |-> "col", stable |-> FALSE, form |-> "cmp"],
                  [by |-> "col", stable |-> TRUE,  form |-> "key"], [by |-> "col", stable |-> FALSE, form |-> "key"],
                  [by |-> "col", stable |-> TRUE,  form |-> "ord"],
                  \* "skey": a key function returning an owning key type (String) - same meaning as "key"
                  [by |-> "row", stable |-> TRUE,  form |-> "skey"], [by |-> "row", stable |-> FALSE, form |-> "skey"],
                  [by |-> "col", stable |-> TRUE,  form |-> "skey"], [by |-> "col", stable |-> FALSE, form |-> "skey"],
                  \* "bkey": a one-byte key type
                  [by |-> "row", stable |-> TRUE,  form |-> "bkey"], [by |-> "row", stable |-> FALSE, form |-> "bkey"],
                  [by |-> "col", stable |-> TRUE,  form |-> "bkey"], [by |-> "col", stable |-> FALSE, form |-> "bkey"] }
SortBy == IF "sortrow" \in Groups /\ "sortcol" \in Groups THEN {"row", "col"}
          ELSE IF "sortrow" \in Groups THEN {"row"} ELSE IF "sortcol" \in Groups THEN {"col"} ELSE {}
DoSort(v, line, rt) ==
    LET a == [by |-> v.by, stable |-> v.stable, form |-> v.form, line |-> line]
        results == IF IsBig(line) THEN {} ELSE SortResults(rt, stack, a)
        chosen == IF results = {} THEN rt ELSE CHOOSE g \in results : TRUE
        cs == Append(calls, [op |-> "sort", a |-> a,
                             x |-> [res |-> IF results = {} THEN Panic ELSE Unit,
                                    alts |-> SetToSeq({Flat(g) : g \in results})]])
    IN /\ Assert(\A g \in results : FrameOK(rt, stack, g) /\ IsRearrangement(rt, g), <<"Sort frame / rearrangement", stack, a>>)
       /\ root' = chosen
       /\ calls' = cs
       /\ nmut' = nmut + 1
       /\ last' = [op |-> "sort", pre |-> rt, res |-> IF results = {} THEN Panic ELSE Unit]
       /\ UNCHANGED <<rkind, stack>>
       /\ Emit(rt, cs)
GSort == /\ SortBy # {} /\ LeafMutable /\ nmut = 0 /\ calls = << >>
         /\ \E v \in SortVariants : v.by \in SortBy /\
              LET n == IF v.by = "row" THEN WR ELSE WC         \* number of lines to choose from
                  m == IF v.by = "row" THEN WC ELSE WR         \* length of the key line
              IN \/ \E line \in 0..(n - 1), pat \in [1..m -> 0..2] : DoSort(v, line, WithKeys(root, stack, v.by, line, pat))
                 \/ \E line \in {n, n + 1} \cup BigArgs : DoSort(v, line, root)

Init == /\ \E sh \in Shapes : root = MkRoot(<<sh \div 10, sh % 10>>)
        /\ rkind \in RootKinds
        /\ stack = << >> /\ calls = << >> /\ nmut = 0
        /\ last = [op |-> "init", pre |-> << >>, res |-> Unit]

Next == PushView \/ GRead \/ GWrite \/ GView \/ GPrim \/ GCopy \/ GMove \/ GSort

Spec == Init /\ [][Next]_vars

View == <<Dims(root), rkind, stack, nmut>>

(* ---- invariants over every explored call ---- *)
\* C04: whatever a call does, cells outside the receiver's rectangle keep their value
FrameInv == last.op \notin {"init", "push"} => FrameOK(last.pre, stack, root)
\* C01-style sanity: the root never changes shape
RootShapeInv == IsGrid(root) /\ (last.op \notin {"init", "push"} => Dims(root) = Dims(last.pre))
\* a rejected call changes nothing
RejectInv == (last.op \notin {"init", "push"} /\ last.res = Panic) => root = last.pre
\* C13 / C15 / C16 / C17: swaps, moves and sorts only rearrange
RearrangeInv == last.op \in {"swap", "swap_rows", "swap_cols", "row_pair_swap", "translate", "flip_rows", "flip_cols", "sort"}
                  => IsRearrangement(last.pre, root)
=============================================================================
