-------------------------------- MODULE Addr --------------------------------
(***************************************************************************)
(* Layer B for C02 / C03: the address arithmetic of src/toodee.rs and      *)
(* src/view.rs in W-bit machine words, for BOTH build flavours:            *)
(*   OC = TRUE  : overflow checks on  (an overflowing + - * panics)        *)
(*   OC = FALSE : overflow checks off (the result wraps modulo 2^W)        *)
(* A receiver is (nc, nr, stride, len): a slice of `len` cells whose rows  *)
(* are `stride` apart (owned array: stride = nc, len = nc*nr).  Every      *)
(* operator returns [k, v, inb]: "panic", or "ok" with the offset / range  *)
(* it computed, and whether every UNCHECKED slice access stayed inside the *)
(* slice.  TLC enumerates every W-bit argument value.                      *)
(***************************************************************************)
EXTENDS Naturals, TLC
CONSTANTS W, OC
Word == 2 ^ W
PanicA == [k |-> "panic", v |-> 0, n |-> 0, inb |-> TRUE]
Ok(v, n, inb) == [k |-> "ok", v |-> v, n |-> n, inb |-> inb]       \* offset v, n cells

\* machine arithmetic: [v, bad] where bad = an overflow that PANICS in this build flavour
Mul(a, b) == [v |-> (a * b) % Word, bad |-> OC /\ a * b >= Word]
Add(a, b) == [v |-> (a + b) % Word, bad |-> OC /\ a + b >= Word]
Sub(a, b) == [v |-> (a + Word - b) % Word, bad |-> OC /\ b > a]

\* representation invariant of a receiver
RecvOK(nc, nr, stride, len) == /\ (nc = 0 <=> nr = 0) /\ stride >= nc
                               /\ len = (IF nr = 0 THEN 0 ELSE (nr - 1) * stride + nc) /\ len < Word /\ stride < Word

(* ---- x[(c, r)]  (Index<Coordinate> of TooDee / TooDeeView / TooDeeViewMut) ---- *)
IndexCoordB(nc, nr, stride, len, c, r) ==
    IF ~(r < nr) \/ ~(c < nc) THEN PanicA
    ELSE LET m == Mul(r, stride)  s == Add(m.v, c) IN
         IF m.bad \/ s.bad THEN PanicA ELSE Ok(s.v, 1, s.v < len)                 \* get_unchecked(offset)
(* ---- x[r]  (Index<usize>): the row slice ---- *)
IndexRowB(nc, nr, stride, len, r) ==
    IF ~(r < nr) THEN PanicA
    ELSE LET m == Mul(r, stride)  e == Add(m.v, nc) IN
         IF m.bad \/ e.bad THEN PanicA ELSE Ok(m.v, nc, m.v <= e.v /\ e.v <= len)  \* get_unchecked(start..start+nc)
(* ---- col(c) of a view: get_col_params ---- *)
ColViewB(nc, nr, stride, len, c) ==
    IF ~(c < nc) THEN PanicA
    ELSE IF nr = 0 THEN Ok(c, 0, c <= len)
    ELSE LET d == Sub(nr, 1)  m == Mul(d.v, stride)  e1 == Add(c, m.v)  e == Add(e1.v, 1)  sk == Sub(stride, 1) IN
         IF d.bad \/ m.bad \/ e1.bad \/ e.bad \/ sk.bad THEN PanicA
         ELSE Ok(c, e.v - c, c <= e.v /\ e.v <= len)                               \* get_unchecked(start..end), skip = stride-1
(* ---- col(c) of an owned array: data.get_unchecked(col .. len - nc + col + 1), skip = nc - 1 ---- *)
ColOwnedB(nc, nr, len, c) ==
    IF ~(c < nc) THEN PanicA
    ELSE LET a == Sub(len, nc)  b == Add(a.v, c)  e == Add(b.v, 1)  sk == Sub(nc, 1) IN
         IF a.bad \/ b.bad \/ e.bad \/ sk.bad THEN PanicA ELSE Ok(c, e.v - c, c <= e.v /\ e.v <= len)
(* ---- col(c)[i]: checked_mul then a bounds-checked slice index ---- *)
ColIndexB(collen, skip, i) ==
    IF i * (1 + skip) >= Word THEN PanicA                                          \* checked_mul -> None -> expect() panics
    ELSE IF i * (1 + skip) >= collen THEN PanicA ELSE Ok(i * (1 + skip), 1, TRUE)
(* ---- view(start, end): calculate_view_dimensions ---- *)
ViewB(nc, nr, stride, len, sc, sr, ec, er) ==
    IF ~(ec >= sc) \/ ~(er >= sr) \/ ~(ec <= nc) \/ ~(er <= nr) THEN PanicA
    ELSE LET w0 == ec - sc  h0 == er - sr
             w == IF w0 = 0 \/ h0 = 0 THEN 0 ELSE w0
             h == IF w0 = 0 \/ h0 = 0 THEN 0 ELSE h0
             m1 == Mul(sr, stride)  ds == Add(m1.v, sc)
             d == Sub(h, 1)  m2 == Mul(d.v, stride)  dl == Add(m2.v, w)
         IN IF h = 0 THEN [k |-> "ok", v |-> 0, n |-> 0, inb |-> TRUE, nc |-> 0, nr |-> 0]
            ELSE IF m1.bad \/ ds.bad \/ d.bad \/ m2.bad \/ dl.bad THEN PanicA
            ELSE LET e == Add(ds.v, dl.v) IN
                 IF e.bad THEN PanicA
                 ELSE [k |-> "ok", v |-> ds.v, n |-> dl.v, inb |-> ds.v <= e.v /\ e.v <= len, nc |-> w, nr |-> h]

(* ---- Layer A: what the property says ---- *)
IndexCoordA(nc, nr, stride, c, r) == IF c < nc /\ r < nr THEN [k |-> "ok", v |-> r * stride + c] ELSE [k |-> "panic", v |-> 0]
IndexRowA(nc, nr, stride, r) == IF r < nr THEN [k |-> "ok", v |-> r * stride] ELSE [k |-> "panic", v |-> 0]
ColA(nc, c) == IF c < nc THEN [k |-> "ok", v |-> c] ELSE [k |-> "panic", v |-> 0]
ViewA(nc, nr, stride, sc, sr, ec, er) ==
    IF sc <= ec /\ sr <= er /\ ec <= nc /\ er <= nr
    THEN IF ec = sc \/ er = sr THEN [k |-> "ok", v |-> 0, nc |-> 0, nr |-> 0]
         ELSE [k |-> "ok", v |-> sr * stride + sc, nc |-> ec - sc, nr |-> er - sr]
    ELSE [k |-> "panic", v |-> 0, nc |-> 0, nr |-> 0]
=============================================================================
