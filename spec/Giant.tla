-------------------------------- MODULE Giant --------------------------------
(***************************************************************************)
(* C02 / C03 / C08 / C09 / C10 on GIANT arrays: one dimension so long that *)
(* products with the stride approach or exceed 2^64.  Such arrays exist    *)
(* only for zero-sized element types, whose cells carry no value - so the  *)
(* Layer A meaning of every call reduces to arithmetic on dimensions.      *)
(*                                                                         *)
(* TLC's integers are 32-bit, so a dimension is represented symbolically   *)
(* as a pair [h, l] standing for h*U + l, where the unit U is a large      *)
(* power of two chosen by the conformance harness (2^31, 2^32, 2^40, 2^61, *)
(* 2^62: each case is run for every U for which all numbers fit in usize). *)
(* |l| is tiny compared with U, so comparison is lexicographic and sums /  *)
(* differences / products with small factors are componentwise.            *)
(***************************************************************************)
EXTENDS Integers, Sequences, TLC

N(h, l) == [h |-> h, l |-> l]
Sm(k) == N(0, k)                                  \* a small number
Lt(a, b) == a.h < b.h \/ (a.h = b.h /\ a.l < b.l)
Le(a, b) == ~Lt(b, a)
Plus(a, b) == N(a.h + b.h, a.l + b.l)
Minus(a, b) == N(a.h - b.h, a.l - b.l)            \* only used when b <= a
Times(k, a) == N(k * a.h, k * a.l)                \* k a small natural
IsNat(a) == a.h > 0 \/ (a.h = 0 /\ a.l >= 0)
BigMAX == N(1000, 0)                              \* usize::MAX: at least as large as every dimension

NoneR == [k |-> "none"]
SomeR == [k |-> "some"]                           \* zero-sized cells are indistinguishable: only some / none
RowR(n) == [k |-> "row", n |-> n]                 \* a row slice of n cells
ValR(n) == [k |-> "val", v |-> n]
PanicR == [k |-> "panic"]
GridR(c, r) == [k |-> "grid", nc |-> c, nr |-> r]

(* ---- the ideal sequence (SeqIter.tla) over symbolic positions ---- *)
Items(nc, nr, kind) == IF kind = "cells" THEN (IF nc.h = 0 THEN Times(nc.l, nr) ELSE Times(nr.l, nc)) ELSE nr
ItemR(nc, kind) == IF kind = "rows" THEN RowR(nc) ELSE SomeR
IR(lo, hi, res) == [lo |-> lo, hi |-> hi, res |-> res]
GApply(nc, nr, kind, lo, hi, op, n) ==
    LET rem == Minus(hi, lo) IN
    CASE op = "next"      -> IF Lt(Sm(0), rem) THEN IR(Plus(lo, Sm(1)), hi, ItemR(nc, kind)) ELSE IR(lo, hi, NoneR)
      [] op = "next_back" -> IF Lt(Sm(0), rem) THEN IR(lo, Minus(hi, Sm(1)), ItemR(nc, kind)) ELSE IR(lo, hi, NoneR)
      [] op = "nth"       -> IF Lt(n, rem) THEN IR(Plus(Plus(lo, n), Sm(1)), hi, ItemR(nc, kind)) ELSE IR(hi, hi, NoneR)
      [] op = "nth_back"  -> IF Lt(n, rem) THEN IR(lo, Minus(Minus(hi, n), Sm(1)), ItemR(nc, kind)) ELSE IR(lo, lo, NoneR)
      [] op = "len"       -> IR(lo, hi, ValR(rem))
      [] op = "index"     -> IF Lt(n, rem) THEN IR(lo, hi, SomeR) ELSE IR(lo, hi, PanicR)

(* ---- checked access and window requests (Access.tla) over symbolic coordinates ---- *)
InRange(nc, nr, c, r) == Lt(c, nc) /\ Lt(r, nr)
AccessR(nc, nr, c, r) == IF InRange(nc, nr, c, r) THEN SomeR ELSE PanicR
ViewR(nc, nr, sc, sr, ec, er) ==
    IF Le(sc, ec) /\ Le(sr, er) /\ Le(ec, nc) /\ Le(er, nr)
    THEN LET w == Minus(ec, sc)  h == Minus(er, sr) IN
         IF w = Sm(0) \/ h = Sm(0) THEN GridR(Sm(0), Sm(0)) ELSE GridR(w, h)
    ELSE PanicR
=============================================================================
