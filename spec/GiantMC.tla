------------------------------- MODULE GiantMC -------------------------------
(***************************************************************************)
(* Enumerates giant shapes (one symbolic-unit dimension, the other 1..3),  *)
(* every iterator call sequence up to MaxCalls with arguments around the   *)
(* remaining length, and every accessor / window request with coordinates  *)
(* around the dimensions; emits each as a replay case for the harness,     *)
(* which instantiates the unit U with several powers of two.               *)
(***************************************************************************)
EXTENDS Giant, Json

CONSTANTS MaxCalls, Parts     \* Parts subset of {"iter", "acc"}
VARIABLES nc, nr, kind, col, lo, hi, calls, phase, win
vars == <<nc, nr, kind, col, lo, hi, calls, phase, win>>
\* win = 0: the whole array; win = k > 0: the window of k columns starting at column 1 (its stride is the giant width)
RC == IF win = 0 THEN nc ELSE Sm(win)

GiantVals == {N(1, -1), N(1, 0), N(1, 1), N(2, 0), N(3, 1), N(4, -1)}
Around(d) == {Sm(0), Sm(1), Plus(d, Sm(1)), d, BigMAX, N(1, 0)} \cup (IF Lt(Sm(0), d) THEN {Minus(d, Sm(1))} ELSE {})
Valid(d) == {x \in Around(d) : IsNat(x)}

Init == /\ \E s \in 1..3, g \in GiantVals, tall \in BOOLEAN :
             /\ (g = N(4, -1) => s = 1)                              \* 4U-1 is usize::MAX for the largest unit: only 1 line fits
             /\ nc = (IF tall THEN Sm(s) ELSE g) /\ nr = (IF tall THEN g ELSE Sm(s))
        /\ kind \in {"rows", "col", "cells", "acc"}
        /\ win \in 0..2 /\ (win > 0 => (kind # "acc" /\ Lt(Sm(win), nc)))
        /\ \E c \in {Sm(0), Minus(RC, Sm(1))} : col = c
        /\ (kind # "col" => col = Sm(0))
        /\ (kind = "acc" <=> "acc" \in Parts /\ ~("iter" \in Parts /\ kind # "acc"))
        /\ (kind # "acc" => "iter" \in Parts)
        /\ lo = Sm(0) /\ hi = Items(RC, nr, kind) /\ calls = << >> /\ phase = "run"

Emit(cs, lo2, hi2) == PrintT(<<"CASE", ToJson([fam |-> "giant", t |-> "iter", nc |-> nc, nr |-> nr, kind |-> kind, col |-> col,
                                                 win |-> win, calls |-> cs, lo |-> lo2, hi |-> hi2])>>)
DoIter(op, n) ==
    /\ kind \in {"rows", "col", "cells"} /\ Len(calls) < MaxCalls
    /\ (op = "index" => kind = "col")
    /\ LET r == GApply(RC, nr, kind, lo, hi, op, n)
           cs == Append(calls, [op |-> op, n |-> n, x |-> [res |-> r.res]])
       IN /\ Assert(Le(r.lo, r.hi) /\ IsNat(r.lo), <<"range", lo, hi, op, n>>)
          /\ lo' = r.lo /\ hi' = r.hi /\ calls' = cs
          /\ Emit(cs, r.lo, r.hi)
    /\ UNCHANGED <<nc, nr, kind, col, phase, win>>
IterCalls == \/ \E op \in {"next", "next_back", "len"} : DoIter(op, Sm(0))
             \/ \E op \in {"nth", "nth_back", "index"}, n \in Valid(Minus(hi, lo)) \cup {nr, nc, RC} : DoIter(op, n)

\* (the quantifiers enclose the assignment of the primed variables, so that TLC enumerates every instance as a
\* successor instead of evaluating a closed disjunction once)
AccDone == phase' = "done" /\ UNCHANGED <<nc, nr, kind, col, lo, hi, calls, win>>
AccCalls == /\ kind = "acc" /\ phase = "run"
            /\ \/ \E op \in {"idx_coord", "idx_row", "col_idx"}, c \in Valid(nc), r \in Valid(nr) :
                    /\ PrintT(<<"CASE", ToJson([fam |-> "giant", t |-> "acc", nc |-> nc, nr |-> nr, op |-> op, c |-> c, r |-> r,
                                                x |-> [res |-> AccessR(nc, nr, c, r)]])>>)
                    /\ AccDone
               \/ \E sc \in {Sm(0), Sm(1), Minus(nc, Sm(1)), nc}, ec \in {Sm(1), Minus(nc, Sm(1)), nc, Plus(nc, Sm(1))},
                     sr \in {Sm(0), Sm(1), Minus(nr, Sm(1)), nr}, er \in {Sm(1), Minus(nr, Sm(1)), nr, Plus(nr, Sm(1))},
                     op \in {"view", "view_mut"} :
                    /\ IsNat(sc) /\ IsNat(ec) /\ IsNat(sr) /\ IsNat(er)
                    /\ PrintT(<<"CASE", ToJson([fam |-> "giant", t |-> "view", nc |-> nc, nr |-> nr, op |-> op,
                                                s |-> <<sc, sr>>, e |-> <<ec, er>>, x |-> [res |-> ViewR(nc, nr, sc, sr, ec, er)]])>>)
                    /\ AccDone

Next == IterCalls \/ AccCalls
Spec == Init /\ [][Next]_vars
RangeInv == Le(lo, hi) /\ IsNat(lo)
=============================================================================
