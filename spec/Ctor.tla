-------------------------------- MODULE Ctor --------------------------------
(***************************************************************************)
(* C20: constructors, conversions, equality.                               *)
(*                                                                         *)
(* A construction request is (constructor, num_cols, num_rows, length of   *)
(* the supplied buffer).  Dimensions may be Big (Grid.tla).  Layer A says  *)
(* when the request must be accepted and with what contents, and when it   *)
(* must panic.  Requests that are acceptable but could only be honoured by *)
(* allocating more than 2^32 elements are never generated.                 *)
(***************************************************************************)
EXTENDS Grid, TLC

Ctors == {"new", "init", "from_vec", "from_box", "view_new", "view_mut_new"}
Panic == [k |-> "panic"]
GridRes(nc, nr, data) == [k |-> "grid", nc |-> nc, nr |-> nr, v |-> data]

ZeroRuleOK(nc, nr) == (nc = 0 <=> nr = 0)
\* every Big x (non-zero) product either overflows usize or exceeds every buffer we ever supply
HasBig(nc, nr) == IsBig(nc) \/ IsBig(nr)

\* buffer cells are 1..n; `new` fills with the default value 0, `init` with the given value 77
Accepts(c, nc, nr, n) ==
    /\ ZeroRuleOK(nc, nr)
    /\ ~HasBig(nc, nr)
    /\ CASE c \in {"new", "init"}          -> TRUE
         [] c \in {"from_vec", "from_box"} -> nc * nr = n
         [] OTHER                          -> nc * nr <= n                 \* the slice constructors take a prefix
Result(c, nc, nr, n) ==
    IF ~Accepts(c, nc, nr, n) THEN Panic
    ELSE CASE c = "new"  -> GridRes(nc, nr, [i \in 1..(nc * nr) |-> 0])
           [] c = "init" -> GridRes(nc, nr, [i \in 1..(nc * nr) |-> 77])
           [] OTHER      -> GridRes(nc, nr, [i \in 1..(nc * nr) |-> i])

(* ---- Layer B: the guard the code evaluates, in W-bit machine arithmetic ---- *)
\* checked_mul over W bits: None (= 2^W here) on overflow
CheckedMul(a, b, W) == IF a * b >= 2 ^ W THEN 2 ^ W ELSE a * b
GuardAccepts(c, nc, nr, n, W) ==
    /\ ((nc = 0 \/ nr = 0) => nc = nr)
    /\ CheckedMul(nc, nr, W) < 2 ^ W
    /\ CASE c \in {"new", "init"}          -> TRUE
         [] c \in {"from_vec", "from_box"} -> CheckedMul(nc, nr, W) = n
         [] OTHER                          -> CheckedMul(nc, nr, W) <= n
\* for W-bit dimensions the true (unbounded) rule and the machine guard agree
TrueAccepts(c, nc, nr, n, W) ==
    /\ ZeroRuleOK(nc, nr) /\ nc * nr < 2 ^ W
    /\ CASE c \in {"new", "init"} -> TRUE [] c \in {"from_vec", "from_box"} -> nc * nr = n [] OTHER -> nc * nr <= n
GuardRefines(W) == \A c \in Ctors, nc \in 0..(2 ^ W - 1), nr \in 0..(2 ^ W - 1), n \in 0..(2 ^ W - 1) :
                      GuardAccepts(c, nc, nr, n, W) <=> TrueAccepts(c, nc, nr, n, W)

(* ---- equality: two arrays are equal exactly when dimensions and cells are ---- *)
\* `refl` = the element type's own == is reflexive; for a type whose == never holds (NaN-like) two arrays are equal only
\* if they have no cells at all - even when both operands are the very same object
EqExpected(a, b) == a.nc = b.nc /\ a.nr = b.nr /\ a.v = b.v
EqExpectedR(a, b, refl) == a.nc = b.nc /\ a.nr = b.nr /\ (IF refl THEN a.v = b.v ELSE Len(a.v) = 0 /\ Len(b.v) = 0)
=============================================================================
