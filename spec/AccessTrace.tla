------------------------------- MODULE AccessTrace -------------------------------
(***************************************************************************)
(* code -> spec for the receiver family on shapes far beyond what TLC      *)
(* enumerates (roots up to 12 x 12, windows nested twice): each event is   *)
(* one call made on the real crate - root cells before, window stack,      *)
(* operation, arguments, observed result, root cells after - and must be   *)
(* exactly what Access!Apply says (frame condition included, since the     *)
(* whole root is compared).                                                *)
(***************************************************************************)
EXTENDS Access, Json, IOUtils

Rec == ndJsonDeserialize(IOEnv.TRACE)
VARIABLE l

Accepts(e) ==
    LET root == FromFlat(e.nc, e.nr, e.ids) IN
    /\ e.shape_ok /\ e.redzone_ok
    /\ IF e.op = "sort"
       THEN LET results == SortResults(root, e.stack, e.a) IN
            IF results = {} THEN e.res = Panic /\ e.root_after = e.ids
            ELSE e.res = Unit /\ \E g \in results : Flat(g) = e.root_after
       ELSE LET r == Apply(root, e.stack, e.op, e.a) IN
            /\ e.res = r.res
            /\ e.root_after = Flat(r.root)

Init == l = 1
Step == l <= Len(Rec) /\ Accepts(Rec[l]) /\ l' = l + 1
Done == l > Len(Rec) /\ UNCHANGED l
Spec == Init /\ [][Step \/ Done]_l
TypeOK == l \in 1..(Len(Rec) + 1)
=============================================================================
