#!/usr/bin/env python3
"""Regenerates /verif/MANIFEST.json from the table below (run after adding a pipeline)."""
import json, os, sys
V = os.path.dirname(os.path.dirname(os.path.abspath(__file__)))
props = [json.loads(l) for l in open(os.path.join(V, "properties.jsonl"))]
TECH = ("explicit TLA+ specification model-checked with TLC; TLC-generated behaviours replayed into the implementation and "
        "recorded implementation traces validated against the specification by TLC (conformance)")
CLAIMS = {
 "C01": ("TooDee.tla/TooDeeMC.tla: TLC explores every transition of the Layer A history machine within small shape bounds, plus random walks; every explored behaviour is replayed step by step against the real crate with the full projection (dimensions, data, iterator lengths, every coordinate) compared", "6/C01"),
 "C02": ("Access.tla/AccessMC.tla: TLC enumerates every accessor x coordinate (incl. huge / wrap-adversarial) x receiver (owned, slice-built, every window, nested); each is executed on the real crate in debug and overflow-unchecked builds and compared by cell id and address", "6/C02"),
 "C03": ("Access.tla/AccessMC.tla: TLC enumerates every window request (valid, invalid, zero-extent anywhere, huge) on every receiver up to nesting depth 2-3; the real window is compared cell by cell, writes through view_mut compared on the whole root", "6/C03"),
 "C04": ("Access.tla/AccessMC.tla: every mutating trait operation x every argument through every mutable window; TLC checks the frame invariant on the specification and the whole real root is compared with Embed(root, window, Op(window)); plus every call sequence of the mutable iterators through every window (SeqIter.tla) with write-through, and long / 2^18-entry sort lines through narrow windows judged by SortTrace.tla (DESIGN section 17 lists every action and axis)", "6/C04"),
 "C05": ("history cases of TooDee.tla (ordinary, fault and leak transitions) replayed with ledger-carrying element types of 8, 16 and 40 bytes and a zero-sized type, and random histories validated by TLC against TooDeeTrace.tla; the specification's conservation law (live = array + handle + caller; nothing twice; nothing dead reachable; nothing live at the end of a fault-free history) is evaluated after every step", "6/C05"),
 "C06": ("every insert/push transition of the history machine from every reachable shape (index 0..dim+1 + huge, supplied length 0..dim+1) replayed in both build profiles, three element types, three capacity modes, with a red-zone allocator", "6/C06"),
 "C07": ("every remove/pop transition and every drain step from every (shape, index, taken-front, taken-back) state of the history machine replayed against the real crate", "6/C07"),
 "C08": ("SeqIter.tla/IterMC.tla: rows()/rows_mut() as the ideal double-ended exact-size sequence: TLC explores every (front,back) state x every call x every argument (edges), every call sequence to a depth bound, and random walks, over every receiver; each behaviour is executed on one live real iterator, results compared, the remainder drained and compared, yielded &mut rows written through and the whole root compared", "6/C08-C10"),
 "C09": ("SeqIter.tla/IterMC.tla: col(c)/col_mut(c) for every column as the ideal indexable sequence, same exploration as C08 incl. [i] on the remaining sequence with huge indices in overflow-unchecked builds", "6/C08-C10"),
 "C10": ("SeqIter.tla/IterMC.tla: cells()/cells_mut() and the IntoIterator forms on references as the ideal row-major cell sequence, same exploration as C08 (nth arguments within-row, row-crossing, exact multiples, beyond the end, huge)", "6/C08-C10"),
 "C18": ("Serde.tla/SerdeMC.tla: TLC checks RoundTrip on the document model; every shape is serialised from the real crate with nine element types (u32, (), i64, i128, u128, String, Option, Vec, BTreeMap) through every serialiser x deserialiser pair (string, bytes, reader, value tree, in place), and every window from view / mutable view", "6/C18"),
 "C19": ("Serde.tla/SerdeMC.tla: TLC enumerates the document grammar (every subset/order/duplication of fields, dimension tokens incl. 2^32..2^64, negative, fractional, string, null, data lengths around the product, ill-typed and non-array data), checks the visitor design (Layer B) refines the acceptance rule (Layer A), and every document (incl. every positional top-level sequence) is fed to the real deserialiser through from_str / from_slice / from_reader / from_value, plain and with escaped keys, deserialize_in_place into destinations of every small cell count, a length-prefixed format with honest and dishonest announced lengths, as a #[serde(flatten)] part of a record, and as an array of () cells", "6/C19"),
 "C20": ("Ctor.tla/CtorMC.tla: every construction request (6 constructors x dimensions incl. huge and wrap-adversarial x buffer lengths), ==/Hash/clone over all pairs of small arrays, and the conversion transitions of the history machine, executed on the real crate with Copy, owning and zero-sized elements", "6/C20"),
 "C11": ("TooDee.tla fault transitions: TLC enumerates every (operation, shape, index, fault point k / lying length) in which caller-supplied code panics; the real crate is driven through each with the fault injected and caught, then used further; TLC validates the recorded trace against TooDeeTrace.tla, judging the post-fault state by the relation PostFaultOK and everything after it by the history machine", "6/C11"),
 "C12": ("TooDee.tla leak transitions: every drain / by-value iterator leaked (mem::forget) at every consumption stage and every destructor-less borrow leaked; the recorded trace of the real crate (observation + further use + drop) is validated by TLC against TooDeeTrace.tla (PostFaultOK + no duplicated element + no double drop then or later); environment overlay: the k-th allocation request of the drain-creating call is refused", "6/C12"),
 "C13": ("Access.tla prim group: swap/swap_rows/swap_cols/row_pair_mut/fill with every index pair incl. equal, reversed, out-of-range and huge, on TooDee, TooDeeViewMut at every window and a third-party implementor using only trait defaults", "6/C13"),
 "C14": ("Access.tla copy group: the four copy_from/clone_from operations with sources around the destination size (owned/view/strided) and copy_within with every source rectangle x destination corner, on owned arrays and every window", "6/C14"),
 "C15": ("Access.tla move group: translate_with_wrap with every mid and both flips on every shape up to 6x6 (quick) / 9x9 (thorough) and through every window of small parents; TLC checks bijectivity on the specification, the real root is compared", "6/C15"),
 "C16": ("Access.tla sort group: six sort-by-row variants x every key row over a 3-letter alphabet x every row index x receivers; stable variants against THE stable permutation, unstable against the set of sorting permutations TLC enumerates", "6/C16"),
 "C17": ("Access.tla sort group: five sort-by-column variants x every key column over a 3-letter alphabet x every column index x receivers", "6/C17"),
}
NA_REASON = "not claimed"
extra = os.path.join(V, "tools", "claims_extra.json")
if os.path.exists(extra):
    CLAIMS.update({k: tuple(v) for k, v in json.load(open(extra)).items()})
checks = []
for p in props:
    pid = p["id"]
    if pid not in CLAIMS:
        continue
    text, ref = CLAIMS[pid]
    checks.append({
        "property_id": pid,
        "quick_cmd": "./check %s --tier quick" % pid,
        "thorough_cmd": "./check %s --tier thorough" % pid,
        "evidence_file": "evidence/%s.json" % pid,
        "replay_cmd_template": "./check %s --replay {path}" % pid,
        "engine": "tlc+conformance",
        "level_claimed": {"category": "model_checking", "text": text, "design_ref": "DESIGN.md section " + ref},
        "level_note": "bounded (small shapes exhaustively; see evidence for the bounds of each run); trusted: rustc/std, serde_json, TLC + CommunityModules, the harness interpreter/projection",
        "technique": TECH,
    })
na = [{"property_id": p["id"], "reason": NA_REASON} for p in props if p["id"] not in CLAIMS]
m = {"version": 1,
     "setup_cmd": "cd harness && cargo build --offline --bins && cargo build --offline --bins --release && cd /repo && RUSTFLAGS='--cfg toodee_verif --check-cfg cfg(toodee_verif)' RUSTDOCFLAGS='--cfg toodee_verif --check-cfg cfg(toodee_verif)' CARGO_TARGET_DIR=/verif/out/hooktarget cargo test --offline --no-run --quiet",
     "hooks": {"guard": "toodee_verif",
               "enable": "--cfg toodee_verif via /verif/harness/.cargo/config.toml rustflags (the harness builds /repo as a path dependency)",
               "baseline_off_cmd": "cd /repo && cargo test --workspace --no-fail-fast --offline",
               "source_commits": ["c10e4f6"], "add_only": True},
     "engines": [{"name": "tlc+conformance", "path": "check", "serves_properties": sorted(CLAIMS),
                  "kind_free_text": "TLC model checking of /verif/spec/*.tla + replay of TLC-emitted cases by /verif/harness (spec->code) + TLC validation of traces recorded from the real crate (code->spec)"}],
     "checks": checks,
     "not_applicable": na,
     "notes": "see DESIGN.md; known_findings.json lists genuine defects found (all repaired by fix: commits so far)"}
json.dump(m, open(os.path.join(V, "MANIFEST.json"), "w"), indent=1)
print("claimed", len(checks), "not claimed", len(na))
