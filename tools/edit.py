#!/usr/bin/env python3
"""Exact-text replacement that preserves a file's line endings (toodee's sources are CRLF).
usage: edit.py <file> <old-text-file> <new-text-file>   (old must occur exactly once)"""
import sys
path, oldp, newp = sys.argv[1:4]
data = open(path, 'rb').read()
old = open(oldp, 'rb').read().replace(b'\r\n', b'\n')
new = open(newp, 'rb').read().replace(b'\r\n', b'\n')
crlf = b'\r\n' in data
if crlf:
    old = old.replace(b'\n', b'\r\n'); new = new.replace(b'\n', b'\r\n')
n = data.count(old)
if n != 1:
    sys.exit("old text occurs %d times in %s" % (n, path))
open(path, 'wb').write(data.replace(old, new))
