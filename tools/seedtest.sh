#!/bin/bash
# usage: seedtest.sh <patchdir> <prop> [more props...]
# Confirms a seeded change in a scratch worktree (suite passes, demo fails with / passes without), then applies it
# to /repo, runs the given checks, and restores /repo.  Prints a summary.
set -u
PD=$1; shift
WT=/tmp/seedverify_$$
git -C /repo worktree add --detach $WT HEAD -f >/dev/null 2>&1
cd $WT
if ! git apply $PD/patch.diff; then echo "PATCH-DOES-NOT-APPLY"; git -C /repo worktree remove --force $WT; exit 2; fi
SUITE=$(cargo test --offline 2>&1 | grep -E "^test result" | tr '\n' ' ')
echo "suite with change: $SUITE"
mkdir -p tests; cp $PD/demo.rs tests/demo.rs
DEMO_WITH=$(cargo test --offline --test demo 2>&1 | grep -E "^test result" | tr '\n' ' ')
echo "demo with change: $DEMO_WITH"
git apply -R $PD/patch.diff
DEMO_WITHOUT=$(cargo test --offline --test demo 2>&1 | grep -E "^test result" | tr '\n' ' ')
echo "demo without change: $DEMO_WITHOUT"
cd /; git -C /repo worktree remove --force $WT
# now the checks
cd /repo && git apply $PD/patch.diff || { echo "cannot apply to /repo"; exit 2; }
cd /verif
for p in "$@"; do
  OUT=$(./check $p 2>/dev/null | grep -E "^VIOLATION|^OK|^KNOWN" | head -3 | tr '\n' ' ')
  echo "check $p (rc=$?): $OUT"
done
git -C /repo checkout -- . ; git -C /repo status --short | head -3
