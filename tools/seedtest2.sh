#!/bin/bash
# usage: seedtest2.sh <patchdir> <prop> [more props...]
# Like seedtest.sh, but never touches /repo's working tree: the seeded change lives in a scratch worktree and the
# (SEEDSLOT=<n> selects an independent set of scratch paths, so several can run side by side.)
# checks run from a scratch copy of /verif whose harness depends on that worktree.  Safe to use while background
# runs (`vp run`) are using /repo.  One at a time (fixed scratch paths).
set -u
PD=$1; shift
SLOT=${SEEDSLOT:-}
WT=/tmp/seedwt$SLOT; VC=/tmp/verifcopy$SLOT
exec 9>/tmp/seedtest2$SLOT.lock; flock 9
git -C /repo worktree remove --force $WT >/dev/null 2>&1; rm -rf $WT; git -C /repo worktree prune
git -C /repo worktree add --detach $WT HEAD -f >/dev/null 2>&1
cd $WT
if ! git apply $PD/patch.diff; then echo "PATCH-DOES-NOT-APPLY"; git -C /repo worktree remove --force $WT; exit 2; fi
SUITE=$(cargo test --workspace --no-fail-fast --offline 2>&1 | grep -E "^test result" | tr '\n' ' ')
echo "suite with change: $SUITE"
mkdir -p tests; cp $PD/demo.rs tests/demo.rs
DEMO_WITH=$(cargo test --offline --test demo 2>&1 | grep -E "^test result" | tr '\n' ' ')
echo "demo with change: $DEMO_WITH"
git apply -R $PD/patch.diff
DEMO_WITHOUT=$(cargo test --offline --test demo 2>&1 | grep -E "^test result" | tr '\n' ' ')
echo "demo without change: $DEMO_WITHOUT"
rm -rf tests/demo.rs target; rmdir tests 2>/dev/null
git apply $PD/patch.diff
mkdir -p $VC
rsync -a --delete --exclude out --exclude harness/target --exclude .git /verif/ $VC/
sed -i "s#path = \"/repo\"#path = \"$WT\"#" $VC/harness/Cargo.toml
sed -i "s#cwd=\"/repo\"#cwd=\"$WT\"#" $VC/vlib/driver.py
cd $VC
for p in "$@"; do
  OUT=$(./check $p 2>/dev/null | grep -E "^VIOLATION|^OK|^KNOWN" | head -3 | tr '\n' ' ')
  echo "check $p: $OUT"
  mkdir -p /tmp/seedtest2_out$SLOT; cp -f $VC/out/$p/violation_000.json /tmp/seedtest2_out$SLOT/$p.violation_000.json 2>/dev/null
  cp -f $VC/evidence/$p.json /tmp/seedtest2_out$SLOT/$p.evidence.json 2>/dev/null
done
cd /; git -C /repo worktree remove --force $WT; git -C /repo worktree prune
